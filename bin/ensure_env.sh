#!/bin/bash
# Idempotent, offline: overlay venv on /venv with crosshair-tool + z3 from the wheelhouse.
set -e
ROOT="$(cd "$(dirname "$0")/.." && pwd)"
V="$ROOT/.venv"
if [ -x "$V/bin/python" ] && "$V/bin/python" -c 'import crosshair, z3, numpy, kazoo' 2>/dev/null; then
  exit 0
fi
(
  flock 9
  if [ -x "$V/bin/python" ] && "$V/bin/python" -c 'import crosshair, z3, numpy, kazoo' 2>/dev/null; then
    exit 0
  fi
  rm -rf "$V"
  /venv/bin/python -m venv "$V" >/dev/null
  SP=$("$V/bin/python" -c 'import sysconfig; print(sysconfig.get_paths()["purelib"])')
  echo "import site; site.addsitedir('/venv/lib/python3.12/site-packages')" > "$SP/zz_overlay.pth"
  PIP_NO_INDEX=1 "$V/bin/pip" install -q --no-index --find-links /opt/veriftools/wheels crosshair-tool z3-solver >/dev/null 2>&1 \
    || PIP_NO_INDEX=1 "$V/bin/pip" install --no-index --find-links /opt/veriftools/wheels crosshair-tool z3-solver
  "$V/bin/python" -c 'import crosshair, z3, numpy, kazoo'
) 9>"$ROOT/.venv.lock"
