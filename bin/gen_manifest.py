#!/usr/bin/env python3
import json, os, sys
HERE = os.path.dirname(os.path.abspath(__file__))
VERIF = os.path.dirname(HERE)
sys.path.insert(0, os.path.join(VERIF, 'lib'))
import registry

props = [json.loads(l) for l in open(os.path.join(VERIF, 'properties.jsonl'))]
checks = []
na = []
for p in props:
    pid = p['id']
    c = registry.CHECKS.get(pid)
    if c and os.path.exists(os.path.join(VERIF, 'checks', pid.lower() + '.py')):
        checks.append({
            'property_id': pid,
            'quick_cmd': 'bin/check %s --tier quick' % pid,
            'thorough_cmd': 'bin/check %s --tier thorough' % pid,
            'evidence_file': '/verif/evidence/%s.json' % pid,
            'replay_cmd_template': 'bin/check %s --replay {path}' % pid,
            'engine': c.get('engine', 'symx'),
            'level_claimed': {'category': 'model_checking', 'text': c['text'],
                              'design_ref': c.get('design_ref', 'DESIGN.md')},
            'level_note': c['note'],
            'technique': c['technique'],
        })
    else:
        na.append({'property_id': pid, 'reason': registry.NOT_YET.get(
            pid, 'check not built yet in this round (solver-based harness '
                 'designed in DESIGN.md section 5; not claimed until it runs)')})
m = {
    'version': 1,
    'setup_cmd': 'bin/ensure_env.sh',
    'hooks': {
        'guard': 'TREADMILL_VERIF',
        'enable': 'no source hooks: checks import /repo/lib/python as is and '
                  'assign stub modules from the harness process',
        'baseline_off_cmd': 'cd /repo && /venv/bin/python -m pytest -q -p '
                            'no:cacheprovider --timeout=900 '
                            '--continue-on-collection-errors',
        'source_commits': [],
        'add_only': True,
    },
    'engines': [
        {'name': 'symx', 'path': 'lib/symx.py',
         'serves_properties': [c['property_id'] for c in checks],
         'kind_free_text': 'symbolic execution of the real Python code under '
                           'CrossHair\'s tracer with z3; own exploration loop; '
                           'concrete replay of every witness'},
        {'name': 'smtq', 'path': 'lib/smtq.py', 'serves_properties': ['C15'],
         'kind_free_text': 'SMT-LIB queries generated from the module source '
                           '(regex -> z3 regular expressions, AST -> Int terms)'},
    ],
    'checks': checks,
    'not_applicable': na,
    'notes': 'Exit codes: 0 held on everything explored (INCOMPLETE line when '
             'a tree was not exhausted), 1 VIOLATION after concrete replay, '
             '3 harness error. Known findings: known_findings.json.',
}
json.dump(m, open(os.path.join(VERIF, 'MANIFEST.json'), 'w'), indent=1)
print('claimed', [c['property_id'] for c in checks])
