#!/bin/bash
# run_all.sh [quick|thorough] : every claimed check in sequence, summary at the end
T=${1:-quick}
cd "$(dirname "$0")/.."
for id in $(python3 -c "import json; print(' '.join(c['property_id'] for c in json.load(open('MANIFEST.json'))['checks']))"); do
  s=$(date +%s)
  out=$(bin/check $id --tier $T 2>&1); rc=$?
  e=$(( $(date +%s) - s ))
  echo "$id rc=$rc ${e}s $(echo "$out" | grep -E 'HOLDS|INCOMPLETE|VIOLATION|HARNESS-ERROR|KNOWN-FINDING' | cut -c1-150 | head -3 | tr '\n' ' ')"
done
