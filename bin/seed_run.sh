#!/bin/bash
# seed_run.sh <seedID> <checkID> [check args...] : run a check against a scratch worktree of /repo with seeded/<seedID>/patch.diff applied
SEED=${1:?seed}; CHK=${2:?check}; shift 2
WT=$(mktemp -d /tmp/seedrun-$SEED.XXXX); rmdir $WT
git -C /repo worktree add -q --detach $WT HEAD || exit 2
trap 'git -C /repo worktree remove --force $WT 2>/dev/null' EXIT
ROOT="$(cd "$(dirname "$0")/.." && pwd)"
P=$ROOT/seeded/$SEED/patch.diff; [ -f $ROOT/seeded/$SEED/patch.rebased.diff ] && P=$ROOT/seeded/$SEED/patch.rebased.diff
git -C $WT apply $P 2>/dev/null || git -C $WT apply -3 $P || exit 2
cd $ROOT && VERIF_STOP_AT_FIRST=1 VERIF_REPO=$WT bin/check $CHK --no-evidence "$@"
echo "exit=$?"
