#!/bin/bash
# seed_sweep.sh <suffix|list of seed ids...> : run every seed's own check against it, one line per seed
# usage: bin/seed_sweep.sh -3          (all seeds whose name ends in -3)
#        bin/seed_sweep.sh C01 C05-2   (these seeds)
cd "$(dirname "$0")/.."
if [ "${1:0:1}" = "-" ]; then SEEDS=$(ls seeded | grep -- "$1\$"); else SEEDS="$@"; fi
for s in $SEEDS; do
  chk=${s:0:3}
  t0=$(date +%s)
  out=$(bin/seed_run.sh $s $chk 2>&1)
  rc=$(echo "$out" | grep -o 'exit=[0-9]*' | tail -1)
  echo "$s $rc $(( $(date +%s) - t0 ))s $(echo "$out" | grep -E 'assertion=|HARNESS-ERROR|INCOMPLETE|HOLDS' | cut -c1-220 | head -2 | tr '\n' ' ')"
done
