#!/bin/bash
# usage: run_tests.sh <worktree>   -> exit 0 iff every baseline-passing test still passes
WT=${1:?worktree}
OUT=$(mktemp /tmp/seedtests-junit.XXXXXX.xml)
( cd "$WT" && /venv/bin/python -m pytest -q -p no:cacheprovider --timeout=900 --continue-on-collection-errors --junitxml="$OUT" >/dev/null 2>&1 )
/venv/bin/python - "$OUT" <<'PY'
import json, sys, xml.etree.ElementTree as ET
base = set(json.load(open('/root/.vp/BASELINE.json'))['stable_pass'])
passed = set()
for tc in ET.parse(sys.argv[1]).getroot().iter('testcase'):
    if not any(ch.tag in ('failure', 'error', 'skipped') for ch in tc):
        passed.add('%s::%s' % (tc.get('classname'), tc.get('name')))
lost = sorted(base - passed)
print('baseline-passing tests: %d, still passing: %d' % (len(base), len(base & passed)))
for t in lost[:40]:
    print('NO LONGER PASSING:', t)
sys.exit(1 if lost else 0)
PY
rc=$?
rm -f "$OUT"
exit $rc
