#!/bin/bash
# seed_verify.sh <ID> [srcdir]  - confirm a seeded change (tests pass, demo FAIL with / PASS without) and file it under seeded/<ID>/
ID=${1:?id}; SRC=${2:-/tmp/seed/out-$ID}
WT=$(mktemp -d /tmp/seedv-$ID.XXXX); rmdir $WT
git -C /repo worktree add -q --detach $WT HEAD || exit 2
trap 'git -C /repo worktree remove --force $WT 2>/dev/null' EXIT
cd $WT
/venv/bin/python $SRC/demo.py $WT >/tmp/seedv-$ID.pristine.log 2>&1; rc_pristine=$?
git apply $SRC/patch.diff || { echo "patch does not apply"; exit 2; }
/verif/bin/seed_tests.sh $WT > /tmp/seedv-$ID.tests.log 2>&1; rc_tests=$?
/venv/bin/python $SRC/demo.py $WT >/tmp/seedv-$ID.patched.log 2>&1; rc_patched=$?
echo "$ID tests_rc=$rc_tests demo_pristine_rc=$rc_pristine demo_patched_rc=$rc_patched"
if [ $rc_tests = 0 ] && [ $rc_pristine = 0 ] && [ $rc_patched = 1 ]; then
  mkdir -p /verif/seeded/$ID
  cp $SRC/patch.diff $SRC/demo.py /verif/seeded/$ID/
  [ -f $SRC/notes.md ] && cp $SRC/notes.md /verif/seeded/$ID/
  /venv/bin/python - "$ID" <<PY
import json, sys, os
i = sys.argv[1]
d = '/verif/seeded/%s' % i
meta = os.path.join(d, 'meta.json')
m = json.load(open(meta)) if os.path.exists(meta) else {}
m.update({'breaks_property': i[:3], 'source': 'independent sub-agent given only the property text',
          'confirmed': {'existing_tests_still_pass': True, 'demo_on_pristine': 'PASS (exit 0)', 'demo_with_patch': 'FAIL (exit 1)',
                        'how': 'bin/seed_verify.sh %s: scratch worktree of /repo HEAD, /tmp/seed/run_tests.sh (729 baseline-passing tests compared by name), demo.py before and after git apply' % i},
          'needs_to_manifest': open(os.path.join(d, 'notes.md')).read() if os.path.exists(os.path.join(d, 'notes.md')) else ''})
json.dump(m, open(meta, 'w'), indent=1)
PY
  echo "  -> kept in /verif/seeded/$ID"
else
  tail -5 /tmp/seedv-$ID.tests.log /tmp/seedv-$ID.pristine.log /tmp/seedv-$ID.patched.log
fi
