"""C01 - no server oversubscribed; one server per instance; views agree."""
import itertools

import g1

PROPERTY = 'C01'
THOROUGH_EXTRA = 60


def _placements(A, S):
    """All initial placements up to renaming of servers (topologies T1/T2 are
    symmetric in their servers)."""
    out = []
    for p in itertools.product([None] + list(range(S)), repeat=A):
        first = [x for x in p if x is not None]
        if first and first[0] != 0:
            continue   # symmetric twin starts with server 0
        out.append(p)
    return out


def subharnesses(tier):
    subs = []
    if tier == 'quick':
        worlds = [('T1', 2, 3, 'q')]
    else:
        # sized for ~25 min on 16 cores
        worlds = [('T1', 2, 3, 'f'), ('T2', 2, 3, 'q'), ('T1', 3, 3, 'min'),
                  ('T2', 1, 4, 'min')]
    for topo, D, A, evset in worlds:
        for pl in _placements(A, 2):
            if evset == 'min':
                events = [('none',), ('server_state', 0, 'down')]
                ups = ()
            elif evset == 'q':
                # (server replaced with another capacity: covered by the
                # loader-level sub-harnesses through the real reload_server;
                # the G1 imitation of it stays in the thorough tier)
                events = [('none',), ('server_state', 0, 'down'),
                          ('server_state', 1, 'down'), ('remove_server', 0),
                          ('remove_app', 0), ('remove_app', A - 1)]
                ups = (0,)
            else:
                events = [('none',), ('server_state', 0, 'down'),
                          ('server_state', 1, 'down'),
                          ('server_state', 0, 'frozen'),
                          ('remove_server', 0), ('remove_server', 1),
                          ('replace_server', 0, {}), ('replace_server', 1, {})]
                events += [('remove_app', i) for i in range(A)]
                ups = (0, 1)
            tag = ''.join('p' if j is None else str(j) for j in pl)
            for ev in events:
                spec = {
                    'topo': topo, 'D': D,
                    'servers': [{}, {}],
                    'apps': [{'place': j} for j in pl],
                    'event': list(ev),
                    'two_cycles': tier == 'thorough',
                }
                name = '%s-D%d-A%d-%s-%s' % (
                    topo, D, A, tag,
                    '_'.join(str(x) for x in ev if not isinstance(x, dict)))
                subs.append((name, spec))
            # a down server (instances inside their retention or not) comes up
            for j in ups:
                spec = {
                    'topo': topo, 'D': D,
                    'servers': [{'state': 'down' if k == j else 'up'}
                                for k in range(2)],
                    'apps': [{'place': x, 'retention': 'sym'} for x in pl],
                    'event': ['server_state', j, 'up'],
                }
                subs.append(('%s-D%d-A%d-%s-down%d_up' % (topo, D, A, tag, j),
                             spec))
    return subs + _loader_subs(tier) + _spelling_subs(tier) + \
        _partition_subs(tier)


DIGITS = '0123456789'
SUFFIXES = ['K', 'M', 'G', 'T', 'KB', 'MB', 'GB', 'k', 'm', 'g']


def _spelling_subs(tier):
    subs = []
    for suf in SUFFIXES:
        subs.append(('spelling-%s' % suf, {'level': 'spelling', 'suffix': suf,
                                           'maxdigits': 3 if tier == 'quick'
                                           else 4}))
    subs.append(('spelling-cpu', {'level': 'spelling', 'suffix': '%',
                                  'maxdigits': 3 if tier == 'quick' else 4}))
    return subs


def _spelling_harness(S, spec):
    """Capacities and demands mean the same quantity however they are
    spelled: the real parsers on every digit string up to maxdigits (a word
    built from solver choices, leading zeros and surrounding blanks
    included) with every unit suffix."""
    from treadmill import utils
    from treadmill.scheduler import loader
    n = 1 + S.choice('ndigits', spec['maxdigits'])
    d = ''.join(DIGITS[S.choice('digit%d' % i, 10)] for i in range(n))
    pad = ('', ' ')[S.choice('blank', 2)]
    val = int(d)
    suf = spec['suffix']
    S.reach('parsed')
    if suf == '%':
        S.check('C01:cpu_percent_spelling_differs',
                utils.cpu_units(pad + d + '%') == utils.cpu_units(d) == val,
                {'digits': d})
        a = loader.resources({'cpu': d + '%', 'memory': '1G', 'disk': '1G'})
        b = loader.resources({'cpu': val, 'memory': '1024M',
                              'disk': '1048576K'})
        S.check('C01:resource_vector_depends_on_spelling', a == b,
                {'a': a, 'b': b})
        return
    unit = 1000 if suf.upper().endswith('B') else 1024
    power = {'K': 1, 'M': 2, 'G': 3, 'T': 4}[suf.upper()[0]]
    nbytes = val * unit ** power
    text = pad + d + suf + pad
    S.check('C01:size_to_bytes_wrong', utils.size_to_bytes(text) == nbytes,
            {'text': text})
    S.check('C01:kilobytes_wrong', utils.kilobytes(text) == nbytes // 1024,
            {'text': text})
    S.check('C01:megabytes_wrong',
            utils.megabytes(text) == nbytes // 1024 // 1024, {'text': text})
    if suf.upper() == 'G':
        S.check('C01:one_G_is_not_1024_M',
                utils.megabytes(d + suf) == utils.megabytes(
                    str(val * 1024) + 'M') == val * 1024, {'digits': d})
    if suf.upper() == 'T':
        S.check('C01:one_T_is_not_1024_G',
                utils.megabytes(d + suf) == utils.megabytes(
                    str(val * 1024) + 'G'), {'digits': d})
    if suf.upper() == 'M':
        S.check('C01:M_is_not_the_unit_of_the_resource_vector',
                loader.resources({'memory': d + suf, 'disk': d + suf,
                                  'cpu': '1%'})[0] == val, {'digits': d})


def _partition_subs(tier):
    """Two partitions; a placed instance is moved to an allocation of the
    other partition (Cell.add_app, as Loader.load_app does)."""
    subs = []
    allocs = [{'path': [], 'label': 'p0'}, {'path': [], 'label': 'p1'}]
    for pl in [(0, None, None), (0, 0, None), (0, None, 1), (0, 1, 1)]:
        apps = [{'place': j, 'alloc': ['p%d' % (j or 0)]} for j in pl]
        for i, j in enumerate(pl):
            if j is None:
                continue
            spec = {'topo': 'T1', 'D': 2,
                    'servers': [{'label': 'p0'}, {'label': 'p1'}],
                    'allocs': allocs, 'apps': apps,
                    'event': ['move_app', i, ['p%d' % (1 - j)]],
                    'two_cycles': True}
            subs.append(('partition-%s-move%d' % (g1.ptag(pl), i), spec))
    return subs


def _loader_subs(tier):
    """The real Loader.reload_server / restore_placement on MemBackend: the
    server record is edited (new symbolic capacity, up to 2^21 so that relative
    tolerances would matter) and a servers event is processed."""
    subs = []
    stores = [('r0_1', [[0], [1]]), ('r0_n', [[0], []])]
    if tier == 'thorough':
        stores.append(('r0_0', [[0], [0]]))
    for sname, recs in stores:
        for ev in (['server_edit', 0], ['server_edit', 0, 'shrink']):
            spec = {'level': 'loader', 'nservers': 2, 'vmax': 2 ** 21,
                    'apps': [{'recorded': r} for r in recs],
                    'events': [ev]}
            subs.append(('loader-%s-%s' % (sname, '_'.join(map(str, ev))),
                         spec))
    # the manifest of a placed instance is rewritten with another size and an
    # 'apps' event re-evaluates it: whatever the loader does with the new
    # size, the server's books must stay consistent with the model
    for sname, recs in [('r0_1', [[0], [1]]), ('r0_0', [[0], [0]])]:
        spec = {'level': 'loader', 'nservers': 2,
                'apps': [{'recorded': r} for r in recs],
                'events': [['app_resize', 0], ['none']]}
        subs.append(('loader-resize-%s' % sname, spec))
    # start-up on a stored state that lists one instance under two servers
    # (what a crash of the previous master, or an operator, can leave behind):
    # Loader.restore_placements has to end with the instance on at most one
    # server, and the first cycles must keep it that way
    for sname, recs in [('r01_n', [[0, 1], []]), ('r01_1', [[0, 1], [1]]),
                        ('r01_0', [[0, 1], [0]])]:
        spec = {'level': 'loader', 'nservers': 2,
                'apps': [{'recorded': r} for r in recs],
                'events': [['none'], ['none']]}
        subs.append(('loader-dup-%s' % sname, spec))
    return subs


def _loader_harness(S, spec):
    import z3
    import g2
    W = g2.base_store(S, spec)
    m = g2.new_master(W)
    g2.start(W, m)
    try:
        for ev in spec['events']:
            g2.apply_event(W, m, ev)
            g2.cycle(W, m)
            _model_views_agree(S, m)
    except AssertionError as e:
        # an assertion of the scheduler itself (Server.put: instance already
        # there, ...) - the model lost track of a placement
        import traceback
        S.fail('C01:scheduler_assertion_failed',
               {'error': traceback.format_exc()[-600:]})
    S.reach('scheduled')
    if spec['events'][0][0] == 'server_edit':
        S.reach('server_record_edited')
    elif spec['events'][0][0] == 'app_resize':
        S.reach('manifest_rewritten')
    else:
        S.reach('started_on_duplicate_records')
    b = W.backend
    for sname, srv in m.servers.items():
        declared = b.get('/servers/' + sname)['memory']
        tot = z3.IntVal(0)
        for an in srv.apps:
            if an in getattr(W, 'resized', {}):
                # whichever size the loader settled on for a rewritten
                # manifest, it is the one the model carries
                tot = tot + S.z(m.cell.apps[an].demand[0])
            else:
                tot = tot + S.z(W.demand[an])
        S.check('C01:oversubscribed_against_declared_capacity',
                tot <= S.z(declared), {'server': sname})
        S.check('C01:free_differs_from_declared_capacity_minus_sum',
                S.z(srv.free_capacity[0]) == S.z(declared) - tot,
                {'server': sname})
    Wx = g1.World()
    Wx.S, Wx.cell, Wx.D = S, m.cell, 3
    g1.ri1(Wx)


def _model_views_agree(S, m):
    holders = {}
    for sname, srv in m.servers.items():
        for an in srv.apps:
            holders.setdefault(an, []).append(sname)
    for an, hs in holders.items():
        S.check('C01:instance_on_two_servers', len(hs) == 1,
                {'app': an, 'servers': hs})
        app = m.cell.apps.get(an)
        S.check('C01:server_lists_instance_whose_server_field_differs',
                app is not None and app.server == hs[0],
                {'app': an, 'listed_by': hs,
                 'app.server': getattr(app, 'server', None)})
    for an, app in m.cell.apps.items():
        if app.server is not None:
            S.check('C01:app_server_not_listing_it',
                    an in m.servers[app.server].apps
                    if app.server in m.servers else False,
                    {'app': an, 'server': app.server})


def budget(tier, name):
    return 400.0 if tier == 'quick' else 600.0


def harness(S, spec):
    if spec.get('level') == 'loader':
        return _loader_harness(S, spec)
    if spec.get('level') == 'spelling':
        return _spelling_harness(S, spec)
    W = g1.build(S, spec)
    g1.ri1(W, ':pre')
    before = g1.snapshot(W)
    g1.apply_event(W, tuple(spec['event']))
    placement = W.cell.schedule()
    S.reach('scheduled')
    if any(b == 'fp:evict_put' for (_o, _s, _a, b) in W.log):
        S.reach('eviction_put')
    if any(b == 'fp:restore_evicted' for (_o, _s, _a, b) in W.log):
        S.reach('restored_after_eviction')
    g1.ri1(W)
    g1.result_agrees(W, placement, before)
    if spec.get('two_cycles'):
        placement = W.cell.schedule()
        g1.ri1(W, ':cycle2')


META = {
    'functions_encoded': [
        'scheduler.Cell.schedule', 'Cell._fix_invalid_placements',
        'Cell._handle_inactive_servers', 'Cell._handle_blacklisted_apps',
        'Cell._fix_invalid_identities', 'Cell.schedule_alloc',
        'Cell._find_placements', 'Allocation.utilization_queue',
        'Allocation.priv_utilization_queue', 'Bucket.put',
        'Bucket.adjust_capacity_up', 'Bucket.adjust_capacity_down',
        'Server.put', 'Server.restore', 'Server.remove', 'Server.set_state',
        'Node.check_app_constraints', 'Node.add_node', 'Node.remove_node',
        'Cell.add_app', 'Cell.remove_app', 'SpreadStrategy',
        'PlacementFeasibilityTracker'],
    'reach_required': ['scheduled', 'eviction_put', 'restored_after_eviction',
                       'server_record_edited', 'parsed',
                       'started_on_duplicate_records'],
}


def weight(name, spec):
    if name.startswith('loader'):
        return 10
    if 'replace_server' in name or 'state_0_down' in name:
        return 5
    if name.startswith('spelling') or name.startswith('partition'):
        return 1
    return 2
