"""C02 - an instance that fits an eligible up server is not left pending.

(a) inductive step: from ANY state in which every bucket aggregate is an upper
    bound of its up children (aggregates are havocked solver variables), one
    mutator (put / remove / state change / node add / node remove) leaves every
    aggregate an upper bound again;
(b) probe: quiescent cell + one new instance; if some leaf server fits (scanned
    directly, never through an aggregate) the next cycle places it.
"""
import z3

import g1
import symx

PROPERTY = 'C02'
THOROUGH_EXTRA = 40


def _post_order(node, out):
    for c in node.children_iter():
        if not hasattr(c, 'apps'):
            _post_order(c, out)
    out.append(node)
    return out


def _havoc(W, tag='h'):
    """Replace every bucket aggregate (bottom-up) by a fresh vector that is an
    upper bound of the bucket's up children - i.e. an arbitrary RI2 state."""
    S = W.S
    sch = W.sch
    for node in _post_order(W.cell, []):
        new = []
        for k in range(W.D):
            v = S.int('%s_%s_%d' % (tag, node.name.replace(':', ''), k),
                      0, 4 * g1.VMAX)
            for c in node.children_iter():
                if c.state is sch.State.up:
                    S.require(S.z(v) >= S.z(c.free_capacity[k]))
            new.append(v)
        if S.concrete:
            import numpy as np
            node.free_capacity = np.array(new, dtype=float)
        else:
            import symnp
            node.free_capacity = symnp.Vec(new)


def _ri2(W, tag=''):
    S = W.S
    sch = W.sch
    for node in g1.all_nodes(W):
        if hasattr(node, 'apps'):
            continue
        tr = 0
        vu = None
        for child in node.children_iter():
            if child.state is sch.State.up:
                for k in range(W.D):
                    S.check('C02:aggregate_capacity_hides_child' + tag,
                            S.z(node.free_capacity[k]) >=
                            S.z(child.free_capacity[k]),
                            {'bucket': node.name, 'child': child.name,
                             'dim': k})
            tr |= child.traits.traits
            S.check('C02:aggregate_labels_hide_child' + tag,
                    child.labels <= node.labels,
                    {'bucket': node.name, 'child': child.name})
            S.check('C02:aggregate_valid_until_hides_child' + tag,
                    S.z(node.valid_until) >= S.z(child.valid_until),
                    {'bucket': node.name, 'child': child.name})
        S.check('C02:aggregate_traits_hide_child' + tag,
                (node.traits.traits & tr) == tr, {'bucket': node.name})


MUTATORS = ['remove', 'put', 'down', 'frozen', 'up_from_down',
            'up_from_frozen', 'down_to_frozen', 'remove_node', 'add_node']


def subharnesses(tier):
    subs = []
    topos = ['T3'] if tier == 'quick' else ['T3', 'T4']
    Ds = [2]
    for topo in topos:
        ns = len(g1.TOPOS[topo][1])
        for D in Ds:
            for m in MUTATORS:
                for j in (range(ns) if tier == 'thorough' else (0, ns - 1)):
                    spec = {'mode': 'step', 'topo': topo, 'D': D,
                            'mutator': m, 'target': j,
                            'servers': [{'traits': 1 << k} for k in range(ns)],
                            'apps': ([{'place': j}, {'place': None}]
                                     if tier == 'quick' else
                                     [{'place': j}, {'place': None},
                                      {'place': (j + 1) % ns}]),
                            'event': ['none'], 'sym_valid_until': True}
                    if m in ('up_from_down', 'down_to_frozen'):
                        spec['servers'][j]['state'] = 'down'
                    if m == 'up_from_frozen':
                        spec['servers'][j]['state'] = 'frozen'
                    subs.append(('step-%s-D%d-%s-s%d' % (topo, D, m, j), spec))
                    if m in ('remove_node', 'down', 'add_node'):
                        # siblings that offer the same traits: the aggregate
                        # must remember every child, not only new bits
                        spec2 = dict(spec, servers=[dict(sv, traits=3)
                                                    for sv in spec['servers']])
                        subs.append(('step-%s-D%d-%s-s%d-sametraits' % (
                            topo, D, m, j), spec2))
    # ---- (b) probes
    ptopos = ['T2'] if tier == 'quick' else ['T3', 'T2']
    for topo in ptopos:
        ns = len(g1.TOPOS[topo][1])
        residents = [(0, 1), (0, None)] if tier == 'quick' else \
            [(0, 1), (0, None), (1, 1)]
        for res in (residents if ns == 2 else [(0, 1)]):
            for pv in (('plain', 'prio', 'trait', 'affinity', 'lease',
                        'lease_late', 'partition', 'behind_unplaceable',
                        'after_remove', 'after_down_up') if ns == 2 else
                       ('plain', 'trait', 'after_remove')):
                servers = [{} for _ in range(ns)]
                apps = [{'place': j} for j in res]
                probe = {}
                pre = []
                if pv == 'trait':
                    servers = [{'traits': 1}, {'traits': 3}, {'traits': 2}][:ns]
                    probe = {'traits': 2}
                elif pv == 'affinity':
                    for a in apps:
                        a['aff'] = 'x'
                        a['limits'] = {'server': 1, 'rack': 2}
                    probe = {'aff': 'x', 'limits': {'server': 1, 'rack': 2}}
                elif pv in ('lease', 'lease_late'):
                    probe = {'lease': 3600}
                    if pv == 'lease_late':
                        # as Loader.create_server builds them: no reboot date
                        # yet when the server is attached to its rack
                        servers = [{'valid_until': 0} for _ in range(ns)]
                elif pv == 'partition':
                    servers = [{'label': 'p0'}, {'label': 'p1'},
                               {'label': 'p1'}][:ns]
                    apps = [{'place': j, 'alloc': [servers[j]['label']]}
                            if j is not None else
                            {'place': None, 'alloc': ['p1']} for j in res]
                    probe = {'alloc': ['p1']}
                elif pv == 'behind_unplaceable':
                    if res[1] is not None:
                        continue
                    apps[1]['traits'] = 4       # nobody offers trait 4
                elif pv == 'after_remove':
                    pre = [['remove_app', 0]]
                elif pv == 'after_down_up':
                    pre = [['server_state', 0, 'down'],
                           ['server_state', 0, 'up']]
                allocs = [{'path': [], 'label': '_default'}]
                if pv == 'partition':
                    allocs = [{'path': [], 'label': 'p0'},
                              {'path': [], 'label': 'p1'}]
                hvs = ('agg',)
                if pv in ('plain', 'after_remove', 'after_down_up') and \
                        (tier == 'thorough' or ns == 2):
                    hvs = ('agg', 'cursor')
                for hv in hvs:
                  D = 2 if pv in ('plain', 'after_remove') and hv == 'agg' else 1
                  spec = {'mode': 'probe', 'topo': topo, 'D': D, 'havoc': hv,
                        'servers': servers, 'allocs': allocs,
                        'apps': apps + [dict(probe, absent=True, place=None,
                                             priority=1)],
                        'pre_events': pre, 'event': ['none'], 'pv': pv,
                        'sym_valid_until': pv == 'lease'}
                  subs.append(('probe-%s-%s-%s-%s' % (topo, g1.ptag(res), pv,
                                                      hv), spec))
    # rack-level affinity head-room after a server hosting instances of the
    # affinity was replaced (Loader.reload_server) or emptied (remove_all)
    for topo in ptopos[:1]:
        for pre, tag in (([['replace_server', 0, {}]], 'replaced'),
                         ([['remove_server', 0]], 'removed')):
            lim = {'server': 2, 'rack': 2, 'cell': 3}
            spec = {'mode': 'probe', 'topo': topo, 'D': 1, 'havoc': 'agg',
                    'servers': [{} for _ in g1.TOPOS[topo][1]],
                    'allocs': [{'path': [], 'label': '_default'}],
                    'apps': [{'place': 0, 'aff': 'x', 'limits': dict(lim)},
                             {'place': 1, 'aff': 'x', 'limits': dict(lim)},
                             {'absent': True, 'place': None, 'aff': 'x',
                              'limits': dict(lim), 'priority': 1}],
                    'pre_events': pre, 'event': ['none'],
                    'pv': 'affinity_after_' + tag, 'sym_valid_until': False}
            subs.append(('probe-%s-affinity_after_%s' % (topo, tag), spec))
    # the probe needs an identity: one is free exactly when fewer members of
    # its group hold one than the group's count - also after a holder lost its
    # server to the loader and was deleted before the next cycle
    for topo in ptopos[:1]:
        for pv, pre in (('identity', []),
                        ('identity_rmserver_rmapp',
                         [['remove_server', 0], ['remove_app', 0]]),
                        ('identity_rmapp', [['remove_app', 0]])):
            for count in (1, 2):
                spec = {'mode': 'probe', 'topo': topo, 'D': 1, 'havoc': 'agg',
                        'servers': [{} for _ in g1.TOPOS[topo][1]],
                        'allocs': [{'path': [], 'label': '_default'}],
                        'igroups': {'g': count},
                        'apps': [{'place': 0, 'ig': 'g', 'ident': 0},
                                 {'place': 1},
                                 {'absent': True, 'place': None, 'ig': 'g',
                                  'priority': 1}],
                        'pre_events': pre, 'event': ['none'], 'pv': pv,
                        'sym_valid_until': False}
                subs.append(('probe-%s-%s-n%d' % (topo, pv, count), spec))
    # two pending instances of the probe's shape fail ahead of it in every
    # cycle (demands symbolic and independent per dimension, so they may be
    # incomparable): what is remembered about their failures must not hide a
    # server that fits the probe
    for topo in ptopos[:1]:
        for caps in ([[8, 8], [8, 8]], [[8, 2], [3, 9]]):
            spec = {'mode': 'probe', 'topo': topo, 'D': 2, 'havoc': 'agg',
                    'servers': [{'capacity': c} for c in caps],
                    'allocs': [{'path': [], 'label': '_default'}],
                    'apps': [{'place': None}, {'place': None},
                             {'absent': True, 'place': None, 'priority': 1}],
                    'pre_events': [], 'event': ['none'],
                    'pv': 'behind_two_pending', 'sym_valid_until': False}
            subs.append(('probe-%s-behind_two_pending-%s' % (
                topo, '_'.join('%d%d' % tuple(c) for c in caps)), spec))
    return subs


def budget(tier, name):
    return 400.0 if tier == 'quick' else 600.0


def _step(S, spec):
    W = g1.build(S, spec)
    sch = W.sch
    _havoc(W)
    _ri2(W, ':pre')      # the havocked state satisfies RI2 by construction
    j = spec['target']
    srv = W.servers[j]
    m = spec['mutator']
    if m == 'remove':
        name = W.apps[0].name
        S.assume(name in srv.apps)
        srv.remove(name)
    elif m == 'put':
        ok = srv.put(W.apps[1])
        S.reach('put_ok' if ok else 'put_refused')
    elif m in ('down', 'frozen', 'down_to_frozen'):
        srv.set_state(sch.State.frozen if 'frozen' in m else sch.State.down,
                      g1.NOW)
    elif m in ('up_from_down', 'up_from_frozen'):
        srv.set_state(sch.State.up, g1.NOW)
    elif m == 'remove_node':
        srv.parent.remove_node(srv)
    elif m == 'add_node':
        cap = g1.vec(S, 'capnew', W.D)
        new = sch.Server('snew', list(cap), traits=8, label='_default',
                         valid_until=S.int('vunew', g1.NOW - g1.TSPAN,
                                           g1.NOW + 10 * g1.TSPAN))
        srv.parent.add_node(new)
    S.reach('mutated')
    _ri2(W)


def _fits(W, app, srv):
    """z3 term: server takes the instance (leaves only)."""
    S, sch = W.S, W.sch
    if srv.state is not sch.State.up:
        return z3.BoolVal(False)
    if app.allocation is not None and app.allocation.label not in srv.labels:
        return z3.BoolVal(False)
    if (srv.traits.self_traits & app.traits) != app.traits:
        return z3.BoolVal(False)
    node = srv
    while node is not None:
        cnt = g1.true_affinity_counts(node)[app.affinity.name]
        if not cnt < app.affinity.limits[node.level]:
            return z3.BoolVal(False)
        node = node.parent
    if app.identity_group:
        # an identity is free iff fewer members hold one than the count
        grp = W.cell.identity_groups.get(app.identity_group)
        held = [a for a in W.cell.apps.values()
                if a.identity_group == app.identity_group and
                a.identity is not None and a is not app]
        if grp is None or len(held) >= W.spec['igroups'][app.identity_group]:
            return z3.BoolVal(False)
    conds = [S.z(app.demand[k]) <= S.z(srv.free_capacity[k])
             for k in range(W.D)]
    if app.lease:
        conds.append(S.z(g1.VT.now + app.lease) < S.z(srv.valid_until))
    return z3.And(*conds)


def _probe(S, spec):
    W = g1.build(S, spec)
    for ev in spec.get('pre_events', []):
        g1.apply_event(W, tuple(ev))
    probe = W.apps[-1]
    if spec.get('pv') == 'lease_late':
        # lifetimes are assigned after the servers were attached, the way
        # Loader.set_server_valid_until does it (Partition.add ->
        # RebootBucket.add writes server.valid_until)
        for srv in W.servers:
            for label in srv.labels:
                W.cell.partitions[label].add(srv)
    if spec['havoc'] == 'agg':
        _havoc(W)
    else:
        for b in g1.all_nodes(W):
            if hasattr(b, 'apps'):
                continue
            st = b.get_affinity_strategy(probe.affinity.name)
            st.current_idx = S.choice('cursor_' + b.name.replace(':', ''),
                                      len(b.children) + 1)
    first = W.cell.schedule()
    for (n, sb, eb, sa, ea) in first:
        S.assume(sb == sa)          # quiescent: the cycle changes nothing
    S.reach('quiescent')
    i = len(W.apps) - 1
    if spec.get('pv') == 'prio':
        W.apps[i].priority = S.int('probe_prio', 0, 100)
    key = tuple(spec['apps'][i].get('alloc', ('_default',)))
    W.cell.add_app(W.allocs[key], probe)
    fits = [_fits(W, probe, srv) for srv in W.cell.members().values()]
    W.cell.schedule()
    if probe.server is not None:
        S.reach('probe_placed')
    else:
        S.reach('probe_pending')
        S.check('C02:fitting_instance_left_pending',
                z3.Not(z3.Or(*fits)),
                {'probe': probe.name})


def harness(S, spec):
    if spec['mode'] == 'step':
        _step(S, spec)
    else:
        _probe(S, spec)


TWINS = ['step-T3-D2-remove-s0', 'probe-T3-01-plain']

META = {
    'functions_encoded': [
        'Bucket.adjust_capacity_up', 'Bucket.adjust_capacity_down',
        'Bucket.add_node', 'Bucket.remove_node', 'Node.add_node',
        'Node.remove_node', 'Node.add_child_traits',
        'Node.remove_child_traits', 'Node.add_labels',
        'Node.adjust_valid_until', 'Server.put', 'Server.remove',
        'Server.set_state', 'Bucket.put', 'SpreadStrategy.suggested_node / '
        'next_node', 'PlacementFeasibilityTracker.feasible / adjust',
        'Cell.schedule', 'Cell._find_placements'],
    'reach_required': ['mutated', 'put_ok', 'put_refused', 'quiescent',
                       'probe_placed', 'probe_pending'],
}


def weight(name, spec):
    if 'behind_two_pending' in name:
        return 9
    if name.startswith('probe') and ('plain' in name or 'after' in name or
                                     'lease' in name):
        return 5
    if 'down_to_frozen' in name:
        return 3
    return 1
