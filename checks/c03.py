"""C03 - placements honour partition, traits, server state and lease."""
import itertools

import g1

PROPERTY = 'C03'
THOROUGH_EXTRA = 150
LEASE = 3600


def _name(*parts):
    return '-'.join(str(p) for p in parts)


def subharnesses(tier):
    subs = []
    D, A = 1, 3
    topos = ['T1'] if tier == 'quick' else ['T1', 'T2']
    for topo in topos:
        # ---- partitions: s0 in p0, s1 in p1; instances in either
        allocs = [{'path': [], 'label': 'p0'}, {'path': [], 'label': 'p1'}]
        for parts in itertools.product((0, 1), repeat=A):
            for placed in itertools.product((False, True), repeat=A):
                apps = [{'place': (parts[i] if placed[i] else None),
                         'alloc': ['p%d' % parts[i]]} for i in range(A)]
                events = [['none']]
                for i in range(A):
                    if placed[i]:
                        events.append(['move_app', i, ['p%d' % (1 - parts[i])]])
                if tier == 'quick':
                    events = events[:2]
                for ev in events:
                    spec = {'topo': topo, 'D': D,
                            'servers': [{'label': 'p0'}, {'label': 'p1'}],
                            'allocs': allocs, 'apps': apps, 'event': ev}
                    subs.append((_name(
                        topo, 'part', ''.join(map(str, parts)),
                        g1.ptag([a['place'] for a in apps]),
                        g1.evtag(ev)), spec))
        # ---- moved to the other partition while its server is not up
        for st in ('frozen', 'down'):
            for pl in [(0, None, None), (0, 0, None), (0, None, 1)]:
                apps = [{'place': j, 'alloc': ['p%d' % (j or 0)],
                         'retention': 'sym'} for j in pl]
                spec = {'topo': topo, 'D': D,
                        'servers': [{'label': 'p0', 'state': st},
                                    {'label': 'p1'}],
                        'allocs': allocs, 'apps': apps,
                        'event': ['move_app', 0, ['p1']]}
                subs.append((_name(topo, 'part-inactive', st, g1.ptag(pl)),
                             spec))
        # ---- a server changes partition under its instances
        for pl in [(0, 0, None), (0, None, 1), (None, 0, 0), (0, 1, None)]:
            apps = [{'place': j, 'alloc': ['p0']} for j in pl]
            spec = {'topo': topo, 'D': D,
                    'servers': [{'label': 'p0'}, {'label': 'p0'}],
                    'allocs': allocs, 'apps': apps,
                    'event': ['replace_server', 0, {'label': 'p1'}]}
            subs.append((_name(topo, 'relabel', g1.ptag(pl)), spec))
        # ---- traits: s0 offers trait 1, s1 offers 1|2
        tvs = [(1, 2, 0), (3, 0, 1), (0, 1, 2), (2, 2, 1), (4, 0, 0)]
        if tier == 'quick':
            tvs = tvs[:3] + tvs[4:]
        for tv in tvs:
            for pl in g1.placements(A, 2, symmetric=False):
                ok = True
                for i, j in enumerate(pl):
                    have = (1, 3)[j] if j is not None else None
                    if j is not None and (have & tv[i]) != tv[i]:
                        ok = False
                if not ok:
                    continue
                for st in (['up', 'up'], ['up', 'frozen']):
                    if st[1] == 'frozen' and tier == 'quick' and \
                            sum(1 for j in pl if j == 1) != 1:
                        continue
                    apps = [{'place': j, 'traits': tv[i]}
                            for i, j in enumerate(pl)]
                    spec = {'topo': topo, 'D': D,
                            'servers': [{'traits': 1, 'state': st[0]},
                                        {'traits': 3, 'state': st[1]}],
                            'apps': apps, 'event': ['none']}
                    subs.append((_name(topo, 'traits',
                                       ''.join(map(str, tv)), g1.ptag(pl),
                                       st[1]), spec))
        # ---- allocation traits
        for pl in [(None, None, None), (1, None, None), (None, 1, 0)]:
            apps = [{'place': j, 'alloc': ['_default', 't']} if i != 2 else
                    {'place': j} for i, j in enumerate(pl)]
            spec = {'topo': topo, 'D': D,
                    'servers': [{'traits': 1}, {'traits': 3}],
                    'allocs': [{'path': [], 'label': '_default'},
                               {'path': ['t'], 'label': '_default',
                                'traits': 2, 'rank': 100}],
                    'apps': apps, 'event': ['none']}
            subs.append((_name(topo, 'alloctraits', g1.ptag(pl)), spec))
        # ---- the allocation gains / loses a trait under its instances
        for pl in [(0, None, None), (1, None, 0), (None, None, None),
                   (0, 1, None)]:
            for t0, t1 in ((0, 2), (2, 0), (1, 3)):
                if t0 and any(j == 0 and (1 & t0) != t0 for j in pl[:2]):
                    continue
                apps = [{'place': j, 'alloc': ['_default', 't']} if i != 2
                        else {'place': j} for i, j in enumerate(pl)]
                spec = {'topo': topo, 'D': D,
                        'servers': [{'traits': 1}, {'traits': 3}],
                        'allocs': [{'path': [], 'label': '_default'},
                                   {'path': ['t'], 'label': '_default',
                                    'traits': t0, 'rank': 100}],
                        'apps': apps,
                        'event': ['alloc_traits', ['_default', 't'], t1]}
                subs.append((_name(topo, 'alloctraits-change', g1.ptag(pl),
                                   '%dto%d' % (t0, t1)), spec))
        # ---- leases against symbolic valid_until, renewals
        for pl in g1.placements(A, 2):
            for leases in ((LEASE, 0, LEASE), (0, LEASE, LEASE)):
                variants = [()]
                ren = [i for i, j in enumerate(pl)
                       if j is not None and leases[i]]
                # Nothing outside the scheduler sets ``renew`` (it is set when
                # a renewal failed and the placement was restored); the code
                # asserts that a renewing instance is still placed when its
                # turn comes, so only the head of the queue - which nobody
                # can evict first - is given the flag.
                if ren and ren[0] == 0:
                    variants.append((0,))
                for rv in variants:
                    apps = [{'place': j, 'lease': leases[i],
                             'renew': i in rv} for i, j in enumerate(pl)]
                    spec = {'topo': topo, 'D': D, 'servers': [{}, {}],
                            'apps': apps, 'event': ['none'],
                            'sym_valid_until': True, 'sym_expiry': True}
                    subs.append((_name(topo, 'lease',
                                       ''.join('L' if x else '0'
                                               for x in leases),
                                       g1.ptag(pl),
                                       'renew' + ''.join(map(str, rv))),
                                 spec))
    return subs + _master_subs(tier)


MALLOC = {'name': 'proid/x', 'partition': 'p0', 'rank': 100, 'memory': '0G',
          'cpu': '0%', 'disk': '0G',
          'assignments': [{'pattern': 'proid.web*', 'priority': 50}]}


def _master_subs(tier):
    """Master level (real Master / Loader on MemBackend): the allocation of
    queued instances gains or loses a trait, or moves to another partition,
    through an 'allocations' event; a server without the trait (or of the old
    partition) then has room.  Required traits and partition are taken from
    the stored configuration, not from the model."""
    subs = []
    servers = [{'partition': 'p0', 'traits': []},
               {'partition': 'p0', 'traits': ['ssd']}]
    for recs in ([[], []], [[1], []], [[0], []]):
        for alloc0, alloc1 in (([], ['ssd']), (['ssd'], []), (['ssd'], ['ssd'])):
            if alloc0 == ['ssd'] and recs[0] == [0]:
                continue            # recorded on a server without the trait
            for order in (('allocations', 'presence_up'),
                          ('presence_up', 'allocations')):
                spec = {'level': 'master', 'nservers': 2, 'traits': ['ssd'],
                        'servers': servers, 'presence': [False, True],
                        'apps': [{'recorded': r} for r in recs],
                        'allocations': [dict(MALLOC, traits=list(alloc0))],
                        'events': [
                            ['allocations',
                             [dict(MALLOC, traits=list(alloc1))]]
                            if o == 'allocations' else ['presence_up', 0]
                            for o in order]}
                subs.append((_name('master-alloctraits',
                                   ''.join(str(len(r)) for r in recs),
                                   'ssd' if alloc0 else 'none', 'to',
                                   'ssd' if alloc1 else 'none',
                                   order[0]), spec))
    # instances that ask for the trait themselves, allocation without traits
    for recs in ([[], []], [[1], []]):
        spec = {'level': 'master', 'nservers': 2, 'traits': ['ssd'],
                'servers': servers, 'presence': [False, True],
                'apps': [{'recorded': recs[0], 'traits': ['ssd']},
                         {'recorded': recs[1]}],
                'allocations': [dict(MALLOC)],
                'events': [['presence_up', 0], ['none']]}
        subs.append((_name('master-apptraits',
                           ''.join(str(len(r)) for r in recs)), spec))
    # the hourly Master.check_reboot ran; afterwards a leased instance is
    # scheduled: it must not land on a server whose reboot has been requested
    for delta in (1800, 5400, -10):
        for recs in ([], [[1]], [[], []]):
            spec = {'level': 'master_reboot', 'nservers': 2,
                    'regime_dems': [3, 3, 3, 3], 'valid_until_delta': delta,
                    'servers': [{'memory': 8}, {'memory': 8}],
                    'apps': [{'recorded': r, 'memory': 3} for r in recs]}
            subs.append((_name('master-reboot_requested',
                               'in%d' % delta if delta > 0 else 'expired',
                               ''.join(str(len(r)) for r in recs) or 'idle'),
                         spec))
    return subs


def _master_reboot(S, spec):
    import g2
    W = g2.base_store(S, spec)
    m = g2.new_master(W)
    g2.start(W, m)
    b = W.backend
    b.seed('/reboots', None, 1)
    # the reboot date of every server (what RebootBucket.add assigns)
    for srv in m.servers.values():
        srv.valid_until = g2.VT.now + spec['valid_until_delta']
    m.check_reboot()
    S.reach('check_reboot_ran')
    before = {n: a.server for n, a in m.cell.apps.items()}
    g2.apply_event(W, m, ['schedule', 2, {'lease': '10m'}])
    g2.cycle(W, m)
    for name, app in m.cell.apps.items():
        if app.server and app.server != before.get(name) and app.lease:
            S.reach('leased_instance_assigned')
            S.check('C03:leased_instance_assigned_to_server_due_for_reboot',
                    not b.exists('/reboots/' + app.server),
                    {'app': name, 'server': app.server})
            S.check('C03:lease_outlives_server',
                    g2.VT.now + 600 < m.servers[app.server].valid_until,
                    {'app': name, 'server': app.server})
    S.reach('scheduled')
    S.reach('master_level')


def _master_harness(S, spec):
    import g2
    W = g2.base_store(S, spec)
    m = g2.new_master(W)
    g2.start(W, m)
    b = W.backend

    def oracle(tag):
        allocs = b.get('/allocations') or []
        for name, app in m.cell.apps.items():
            if not app.server:
                continue
            S.reach('placed')
            rec = b.get('/servers/' + app.server)
            need = set((b.get('/scheduled/' + name) or {}).get('traits', []))
            part = None
            for a in allocs:
                for asg in a.get('assignments', []):
                    if name.startswith(asg['pattern'].rstrip('*')):
                        need |= set(a.get('traits', []))
                        part = a.get('partition')
            S.check('C03:placed_on_server_lacking_required_trait' + tag,
                    need <= set(rec.get('traits', [])),
                    {'app': name, 'server': app.server,
                     'required': sorted(need),
                     'offered': rec.get('traits', [])})
            if part is not None:
                S.check('C03:placed_instance_on_foreign_partition' + tag,
                        (rec.get('partition') or '_default') == part,
                        {'app': name, 'server': app.server})
            S.check('C03:placed_on_server_without_presence' + tag,
                    b.exists('/server.presence/' + app.server) or
                    name in (spec.get('retained') or []),
                    {'app': name, 'server': app.server})
    for k, ev in enumerate(spec['events']):
        g2.apply_event(W, m, ev)
        g2.cycle(W, m)
        oracle(':after_event%d' % k)
    g2.cycle(W, m)
    oracle(':idle')
    S.reach('scheduled')
    S.reach('master_level')


def budget(tier, name):
    return 400.0 if tier == 'quick' else 600.0


def harness(S, spec):
    if spec.get('level') == 'master':
        return _master_harness(S, spec)
    if spec.get('level') == 'master_reboot':
        return _master_reboot(S, spec)
    W = g1.build(S, spec)
    g1.apply_event(W, tuple(spec['event']))
    states = g1.server_states(W)
    placement = W.cell.schedule()
    g1.reach_branches(W)
    S.reach('scheduled')
    g1.c03_oracle(W, placement, states)
    if any(ap.get('renew') for ap in spec['apps']):
        S.reach('renewal_attempted')


META = {
    'functions_encoded': [
        'scheduler.Cell.schedule', 'Cell._fix_invalid_placements',
        'Cell._find_placements (renew / restore branches, eviction put)',
        'Node.check_app_constraints', 'Server.check_app_lifetime',
        'Server.renew', 'Server.put', 'Server.restore', 'Bucket.put',
        'TraitSet.has', 'Application.traits', 'Cell.add_app (move between '
        'allocations)', 'Master.process_events (allocations, servers)',
        'Loader.load_allocations / load_app / find_assignment',
        'Allocation.set_traits', 'Master.process_server_presence'],
    'reach_required': ['scheduled', 'new_assignment',
                       'new_assignment_with_lease', 'renewal_attempted',
                       'eviction_put', 'restored_after_failed_renew',
                       'master_level', 'placed'],
}
