"""C03 - placements honour partition, traits, server state and lease."""
import itertools

import g1

PROPERTY = 'C03'
THOROUGH_EXTRA = 150
LEASE = 3600


def _name(*parts):
    return '-'.join(str(p) for p in parts)


def subharnesses(tier):
    subs = []
    D, A = 1, 3
    topos = ['T1'] if tier == 'quick' else ['T1', 'T2']
    for topo in topos:
        # ---- partitions: s0 in p0, s1 in p1; instances in either
        allocs = [{'path': [], 'label': 'p0'}, {'path': [], 'label': 'p1'}]
        for parts in itertools.product((0, 1), repeat=A):
            for placed in itertools.product((False, True), repeat=A):
                apps = [{'place': (parts[i] if placed[i] else None),
                         'alloc': ['p%d' % parts[i]]} for i in range(A)]
                events = [['none']]
                for i in range(A):
                    if placed[i]:
                        events.append(['move_app', i, ['p%d' % (1 - parts[i])]])
                if tier == 'quick':
                    events = events[:2]
                for ev in events:
                    spec = {'topo': topo, 'D': D,
                            'servers': [{'label': 'p0'}, {'label': 'p1'}],
                            'allocs': allocs, 'apps': apps, 'event': ev}
                    subs.append((_name(
                        topo, 'part', ''.join(map(str, parts)),
                        g1.ptag([a['place'] for a in apps]),
                        g1.evtag(ev)), spec))
        # ---- moved to the other partition while its server is not up
        for st in ('frozen', 'down'):
            for pl in [(0, None, None), (0, 0, None), (0, None, 1)]:
                apps = [{'place': j, 'alloc': ['p%d' % (j or 0)],
                         'retention': 'sym'} for j in pl]
                spec = {'topo': topo, 'D': D,
                        'servers': [{'label': 'p0', 'state': st},
                                    {'label': 'p1'}],
                        'allocs': allocs, 'apps': apps,
                        'event': ['move_app', 0, ['p1']]}
                subs.append((_name(topo, 'part-inactive', st, g1.ptag(pl)),
                             spec))
        # ---- a server changes partition under its instances
        for pl in [(0, 0, None), (0, None, 1), (None, 0, 0), (0, 1, None)]:
            apps = [{'place': j, 'alloc': ['p0']} for j in pl]
            spec = {'topo': topo, 'D': D,
                    'servers': [{'label': 'p0'}, {'label': 'p0'}],
                    'allocs': allocs, 'apps': apps,
                    'event': ['replace_server', 0, {'label': 'p1'}]}
            subs.append((_name(topo, 'relabel', g1.ptag(pl)), spec))
        # ---- traits: s0 offers trait 1, s1 offers 1|2
        tvs = [(1, 2, 0), (3, 0, 1), (0, 1, 2), (2, 2, 1), (4, 0, 0)]
        if tier == 'quick':
            tvs = tvs[:3] + tvs[4:]
        for tv in tvs:
            for pl in g1.placements(A, 2, symmetric=False):
                ok = True
                for i, j in enumerate(pl):
                    have = (1, 3)[j] if j is not None else None
                    if j is not None and (have & tv[i]) != tv[i]:
                        ok = False
                if not ok:
                    continue
                for st in (['up', 'up'], ['up', 'frozen']):
                    if st[1] == 'frozen' and tier == 'quick' and \
                            sum(1 for j in pl if j == 1) != 1:
                        continue
                    apps = [{'place': j, 'traits': tv[i]}
                            for i, j in enumerate(pl)]
                    spec = {'topo': topo, 'D': D,
                            'servers': [{'traits': 1, 'state': st[0]},
                                        {'traits': 3, 'state': st[1]}],
                            'apps': apps, 'event': ['none']}
                    subs.append((_name(topo, 'traits',
                                       ''.join(map(str, tv)), g1.ptag(pl),
                                       st[1]), spec))
        # ---- allocation traits
        for pl in [(None, None, None), (1, None, None), (None, 1, 0)]:
            apps = [{'place': j, 'alloc': ['_default', 't']} if i != 2 else
                    {'place': j} for i, j in enumerate(pl)]
            spec = {'topo': topo, 'D': D,
                    'servers': [{'traits': 1}, {'traits': 3}],
                    'allocs': [{'path': [], 'label': '_default'},
                               {'path': ['t'], 'label': '_default',
                                'traits': 2, 'rank': 100}],
                    'apps': apps, 'event': ['none']}
            subs.append((_name(topo, 'alloctraits', g1.ptag(pl)), spec))
        # ---- leases against symbolic valid_until, renewals
        for pl in g1.placements(A, 2):
            for leases in ((LEASE, 0, LEASE), (0, LEASE, LEASE)):
                variants = [()]
                ren = [i for i, j in enumerate(pl)
                       if j is not None and leases[i]]
                # Nothing outside the scheduler sets ``renew`` (it is set when
                # a renewal failed and the placement was restored); the code
                # asserts that a renewing instance is still placed when its
                # turn comes, so only the head of the queue - which nobody
                # can evict first - is given the flag.
                if ren and ren[0] == 0:
                    variants.append((0,))
                for rv in variants:
                    apps = [{'place': j, 'lease': leases[i],
                             'renew': i in rv} for i, j in enumerate(pl)]
                    spec = {'topo': topo, 'D': D, 'servers': [{}, {}],
                            'apps': apps, 'event': ['none'],
                            'sym_valid_until': True, 'sym_expiry': True}
                    subs.append((_name(topo, 'lease',
                                       ''.join('L' if x else '0'
                                               for x in leases),
                                       g1.ptag(pl),
                                       'renew' + ''.join(map(str, rv))),
                                 spec))
    return subs


def budget(tier, name):
    return 400.0 if tier == 'quick' else 600.0


def harness(S, spec):
    W = g1.build(S, spec)
    g1.apply_event(W, tuple(spec['event']))
    states = g1.server_states(W)
    placement = W.cell.schedule()
    g1.reach_branches(W)
    S.reach('scheduled')
    g1.c03_oracle(W, placement, states)
    if any(ap.get('renew') for ap in spec['apps']):
        S.reach('renewal_attempted')


META = {
    'functions_encoded': [
        'scheduler.Cell.schedule', 'Cell._fix_invalid_placements',
        'Cell._find_placements (renew / restore branches, eviction put)',
        'Node.check_app_constraints', 'Server.check_app_lifetime',
        'Server.renew', 'Server.put', 'Server.restore', 'Bucket.put',
        'TraitSet.has', 'Application.traits', 'Cell.add_app (move between '
        'allocations)'],
    'reach_required': ['scheduled', 'new_assignment',
                       'new_assignment_with_lease', 'renewal_attempted',
                       'eviction_put', 'restored_after_failed_renew'],
}
