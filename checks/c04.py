"""C04 - affinity limits hold at every level of the topology."""
import g1

PROPERTY = 'C04'
THOROUGH_EXTRA = 150

LIMITS = [{'rack': 1}, {'server': 1}, {'server': 1, 'cell': 2}, {'rack': 2}]
AFFS = [('x', 'x', 'x'), ('x', 'x', 'y'), ('x', 'y', 'x'), ('y', 'x', 'x')]


def subharnesses(tier):
    subs = []
    if tier == 'quick':
        worlds = [('T1', 1, 3, LIMITS[:2], AFFS[:2] + AFFS[3:]),
                  ('T1', 1, 3, [{'cell': 2}, {'server': 1, 'cell': 2}],
                   AFFS[:1]),
                  ('T3', 1, 3, [{'pod': 1}], AFFS[:1]),
                  ('T2', 1, 3, LIMITS[:2], AFFS[:2]),
                  ('T3', 1, 3, [{'rack': 1, 'pod': 2}], AFFS[:1])]
    else:
        worlds = [('T1', 1, 3, LIMITS, AFFS), ('T2', 1, 3, LIMITS, AFFS),
                  ('T3', 1, 3, LIMITS[:3] + [{'pod': 2}], AFFS[:2]),
                  ('T1', 2, 3, LIMITS[:2], AFFS[:2])]
    for topo, D, A, limits, affs in worlds:
        ns = len(g1.TOPOS[topo][1])
        for lim in limits:
            for aff in affs:
                for pl in g1.placements(A, ns, symmetric=(ns == 2)):
                    apps = [{'place': j, 'aff': aff[i],
                             'limits': dict(lim) if aff[i] == 'x' else None}
                            for i, j in enumerate(pl)]
                    spec = {'topo': topo, 'D': D,
                            'servers': [{} for _ in range(ns)],
                            'apps': apps, 'event': ['none']}
                    name = '%s-D%d-%s-%s-%s' % (
                        topo, D, '_'.join('%s%d' % kv for kv in
                                          sorted(lim.items())),
                        ''.join(aff), g1.ptag(pl))
                    subs.append((name, spec))
    for topo in ('T1', 'T2'):
        for pl in [(0, 0, None), (0, 1, None), (0, None, None), (0, 0, 1)]:
            for st, extra in (('down', {}), ('frozen', {'unschedule': True}),
                              ('down', {'blacklisted': True})):
                apps = [dict({'place': j, 'aff': 'x', 'retention': 'sym',
                              'limits': {'server': 2, 'rack': 2, 'cell': 3}},
                             **(extra if i == 0 else {}))
                        for i, j in enumerate(pl)]
                spec = {'topo': topo, 'D': 1,
                        'servers': [{'state': st}, {}],
                        'apps': apps, 'event': ['none']}
                subs.append(('%s-inactive-%s-%s-%s' % (
                    topo, st, '_'.join(extra) or 'plain', g1.ptag(pl)), spec))
    # instances of one affinity name that declare DIFFERENT limit values for
    # the same levels (limits tightened between submissions)
    for topo in ('T1', 'T2'):
        for l0, l1 in (({'server': 2, 'rack': 2}, {'server': 1, 'rack': 2}),
                       ({'server': 2}, {'server': 1})):
            for pl in ((None, None, None), (0, None, None), (None, 0, None),
                       (0, 0, None), (0, 1, None)):
                apps = [{'place': j, 'aff': 'x',
                         'limits': dict(l0 if i == 0 else l1)}
                        for i, j in enumerate(pl)]
                spec = {'topo': topo, 'D': 1, 'servers': [{}, {}],
                        'apps': apps, 'event': ['none']}
                subs.append(('%s-mixedlimits-%s-%s' % (
                    topo, '_'.join('%s%d' % kv for kv in sorted(l1.items())),
                    g1.ptag(pl)), spec))
    # a server that hosts (or hosted) instances leaves the tree or is replaced
    # (Loader.remove_server / reload_server): every ancestor loses exactly what
    # the server contributed
    for topo in ('T1', 'T3'):
        ns = len(g1.TOPOS[topo][1])
        for ev in (['remove_server', 0], ['replace_server', 0, {}],
                   ['remove_app_then_server', 0]):
            for pl in ((0, 1, None), (0, 0, None), (0, None, None)):
                apps = [{'place': j, 'aff': 'x',
                         'limits': {'server': 2, 'rack': 2, 'cell': 2}}
                        for j in pl]
                spec = {'topo': topo, 'D': 1,
                        'servers': [{} for _ in range(ns)],
                        'apps': apps, 'event': ev}
                subs.append(('%s-%s-%s' % (topo, ev[0], g1.ptag(pl)), spec))
    # the master's 'cell' event (real Loader.load_cell) with instances placed
    for topo, lim, pls in (
            ('T2', {'cell': 2}, g1.placements(3, 2, symmetric=True)),
            ('T1', {'server': 1, 'cell': 3}, [(0, 1, None), (0, None, None)]),
            ('T3', {'cell': 2}, [(0, 2, None), (2, None, None), (0, 1, None)]),
            ('T3', {'server': 1, 'cell': 3}, [(0, 1, 2), (0, None, 2)])):
        ns = len(g1.TOPOS[topo][1])
        for pl in pls:
            if all(j is None for j in pl):
                continue
            apps = [{'place': j, 'aff': 'x', 'limits': dict(lim)} for j in pl]
            spec = {'topo': topo, 'D': 1,
                    'servers': [{} for _ in range(ns)],
                    'apps': apps, 'event': ['reload_cell']}
            subs.append(('%s-reload_cell-%s-%s' % (
                topo, '_'.join('%s%d' % kv for kv in sorted(lim.items())),
                g1.ptag(pl)), spec))
    # master level: a server record is re-parented to another rack (servers
    # event -> Loader.reload_server) while it hosts instances of an affinity
    # with a rack limit; the other rack may already be at the limit
    for recs in ([[0], [1]], [[0], []], [[0], [0]]):
        for lim in ({'rack': 1}, {'rack': 1, 'server': 1}):
            spec = {'level': 'master', 'nservers': 2,
                    'regime_dems': [3, 3, 3, 3],
                    'servers': [{'memory': 8}, {'memory': 8}],
                    'apps': [{'recorded': r, 'memory': 3,
                              'affinity_limits': dict(lim)} for r in recs],
                    'limits': dict(lim),
                    'events': [['server_reparent', 0, 'rack:r1'], ['none']]}
            subs.append(('master-reparent-%s-%s' % (
                ''.join(str(len(r)) + (str(r[0]) if r else '')
                        for r in recs),
                '_'.join('%s%d' % kv for kv in sorted(lim.items()))), spec))
    return subs


def _master_harness(S, spec):
    import collections
    import g2
    W = g2.base_store(S, spec)
    m = g2.new_master(W)
    g2.start(W, m)
    b = W.backend

    def oracle(tag):
        per = collections.Counter()
        for name, app in m.cell.apps.items():
            if not app.server:
                continue
            rec = b.get('/servers/' + app.server)
            per[('rack', rec['parent'])] += 1
            per[('server', app.server)] += 1
        for (level, node), n in per.items():
            if level in spec['limits']:
                S.check('C04:affinity_limit_exceeded' + tag,
                        n <= spec['limits'][level],
                        {'level': level, 'node': node, 'count': n,
                         'limit': spec['limits'][level]})
        # the scheduler's own counters equal the true counts
        Wx = g1.World()
        Wx.S, Wx.cell, Wx.spec = S, m.cell, {'apps': []}
        for node in g1.all_nodes(Wx):
            true = g1.true_affinity_counts(node)
            for aff in set(true) | set(node.affinity_counters):
                S.check('C04:affinity_counter_differs_from_true_count' + tag,
                        node.affinity_counters[aff] == true[aff],
                        {'node': node.name, 'affinity': aff})
    oracle(':after_init')
    for k, ev in enumerate(spec['events']):
        g2.apply_event(W, m, ev)
        g2.cycle(W, m)
        oracle(':after_event%d' % k)
    S.reach('scheduled')
    S.reach('master_level')


def budget(tier, name):
    return 400.0 if tier == 'quick' else 600.0


def _evict_branch(S, label):
    """Known-finding predicate: the violated limit was produced by a put
    issued directly by _find_placements (eviction / restore branches)."""
    return False


def harness(S, spec):
    if spec.get('level') == 'master':
        return _master_harness(S, spec)
    W = g1.build(S, spec)
    g1.c04_oracle(W, ':pre', assume=True)     # pre-state satisfies the limits
    if spec['event'][0] != 'none':
        g1.apply_event(W, spec['event'])
        S.reach('event:' + spec['event'][0])
        g1.c04_oracle(W, ':after_event')
    placement = W.cell.schedule()
    g1.reach_branches(W)
    S.reach('scheduled')
    g1.c04_oracle(W)
    placement = W.cell.schedule()
    g1.c04_oracle(W, ':cycle2')


META = {
    'functions_encoded': [
        'scheduler.Cell.schedule', 'Cell._find_placements (eviction put, '
        'restore of evicted)', 'Node.check_app_affinity_limit',
        'Node.check_app_constraints', 'Bucket.put', 'Server.put',
        'Server.restore', 'Server.remove', 'Node.increment_affinity',
        'Node.decrement_affinity'],
    'reach_required': ['scheduled', 'eviction_put', 'restored_after_eviction',
                       'event:reload_cell', 'event:remove_server',
                       'event:replace_server', 'master_level'],
}
