"""C05 - identities unique, in range, held only by placed instances."""
import g1

PROPERTY = 'C05'
THOROUGH_EXTRA = 150


def _events(tier, count):
    ev = [['none'], ['igroup', 'g', count + 1], ['igroup', 'g', 0],
          ['igroup_remove', 'g'], ['igroup_recreate', 'g', count],
          ['server_state', 0, 'down'], ['blacklist', 0], ['remove_app', 0]]
    if count > 1:
        ev.append(['igroup', 'g', count - 1])
    if tier == 'thorough':
        ev += [['blacklist', 1], ['remove_app', 1], ['remove_server', 0],
               ['server_state', 0, 'frozen']]
    return ev


def subharnesses(tier):
    subs = []
    worlds = [('T1', 1, 3), ('T2', 1, 3)] if tier == 'quick' else \
        [('T1', 1, 3), ('T2', 1, 3), ('T1', 2, 3)]
    for topo, D, A in worlds:
        for count in (1, 2):
            for pl in g1.placements(A, 2):
                placed = [i for i, j in enumerate(pl) if j is not None]
                if len(placed) > count:
                    continue
                apps = []
                nxt = 0
                for i, j in enumerate(pl):
                    a = {'place': j, 'ig': 'g'}
                    if j is not None:
                        a['ident'] = nxt
                        nxt += 1
                    apps.append(a)
                for ev in _events(tier, count):
                    spec = {'topo': topo, 'D': D, 'servers': [{}, {}],
                            'apps': apps, 'igroups': {'g': count},
                            'event': ev}
                    subs.append(('%s-D%d-A%d-n%d-%s-%s' % (
                        topo, D, A, count, g1.ptag(pl), g1.evtag(ev)), spec))
                # two events before the next cycle: the server of a placed
                # member disappears and the member (or another one) is removed
                if placed:
                    for who in (placed[0], A - 1):
                        spec = {'topo': topo, 'D': D, 'servers': [{}, {}],
                                'apps': apps, 'igroups': {'g': count},
                                'event': ['remove_server', pl[placed[0]]],
                                'more_events': [['remove_app', who]]}
                        subs.append(('%s-D%d-A%d-n%d-%s-rmserver_rmapp%d' % (
                            topo, D, A, count, g1.ptag(pl), who), spec))
                # the server of the member holding the highest identity
                # disappears and the group shrinks below that identity in the
                # same batch of events
                if placed and count == 2:
                    for newcount in (1, 0):
                        spec = {'topo': topo, 'D': D, 'servers': [{}, {}],
                                'apps': apps, 'igroups': {'g': count},
                                'event': ['remove_server', pl[placed[-1]]],
                                'more_events': [['igroup', 'g', newcount]]}
                        subs.append(('%s-D%d-A%d-n%d-%s-rmserver_shrink%d' % (
                            topo, D, A, count, g1.ptag(pl), newcount), spec))
                # the count is lowered to the highest held identity (or to 0)
                # and raised again before a cycle runs
                if placed and count == 2:
                    for low in (1, 0):
                        for high in (2, 3):
                            spec = {'topo': topo, 'D': D, 'servers': [{}, {}],
                                    'apps': apps, 'igroups': {'g': count},
                                    'event': ['igroup', 'g', low],
                                    'more_events': [['igroup', 'g', high]]}
                            subs.append((
                                '%s-D%d-A%d-n%d-%s-count_%d_then_%d' % (
                                    topo, D, A, count, g1.ptag(pl), low,
                                    high), spec))
                if placed:
                    for st in ('down', 'frozen'):
                        spec = {'topo': topo, 'D': D, 'servers': [{}, {}],
                                'apps': apps, 'igroups': {'g': count},
                                'event': ['server_state', pl[placed[0]], st],
                                'more_events': [['blacklist', placed[0]]]}
                        subs.append(('%s-D%d-A%d-n%d-%s-%s_blacklist' % (
                            topo, D, A, count, g1.ptag(pl), st), spec))
                # members live in an allocation with a utilisation cap: those
                # beyond it are unranked (removed if placed, never placed)
                if count == 2:
                    capped = [dict(a, alloc=['_default', 'cap'])
                              for a in apps]
                    spec = {'topo': topo, 'D': D, 'servers': [{}, {}],
                            'allocs': [{'path': [], 'label': '_default'},
                                       {'path': ['cap'], 'label': '_default',
                                        'reserved': [5] * D, 'rank': 100,
                                        'max_utilization': 1}],
                            'apps': capped, 'igroups': {'g': count},
                            'event': ['none']}
                    subs.append(('%s-D%d-A%d-n%d-%s-capped' % (
                        topo, D, A, count, g1.ptag(pl)), spec))
                # third instance outside the group competes for capacity
                apps2 = [dict(a) for a in apps]
                if apps2[-1].get('place') is None:
                    apps2[-1] = {'place': None}
                    spec = {'topo': topo, 'D': D, 'servers': [{}, {}],
                            'apps': apps2, 'igroups': {'g': count},
                            'event': ['none']}
                    subs.append(('%s-D%d-A%d-n%d-%s-mixed' % (
                        topo, D, A, count, g1.ptag(pl)), spec))
    return subs


def budget(tier, name):
    return 400.0 if tier == 'quick' else 600.0


def harness(S, spec):
    W = g1.build(S, spec)
    g1.c05_oracle(W, ':pre')
    g1.apply_event(W, tuple(spec['event']))
    for ev in spec.get('more_events', []):
        g1.apply_event(W, tuple(ev))
    W.cell.schedule()
    g1.reach_branches(W)
    S.reach('scheduled')
    g1.c05_oracle(W)
    W.cell.schedule()
    g1.c05_oracle(W, ':cycle2')


META = {
    'functions_encoded': [
        'scheduler.Cell.schedule', 'Cell._find_placements',
        'Cell._fix_invalid_identities', 'Cell._fix_invalid_placements',
        'Cell._handle_inactive_servers', 'Cell._handle_blacklisted_apps',
        'Cell.configure_identity_group', 'Cell.remove_identity_group',
        'Cell.remove_app', 'IdentityGroup.acquire / release / adjust',
        'Application.acquire_identity / release_identity / '
        'force_set_identity'],
    'reach_required': ['scheduled', 'identity_held', 'eviction_put'],
}
