"""C06 - the scheduling queue orders instances by rank, reservation, priority."""
import sys as _sys

import z3

import g1

PROPERTY = 'C06'
THOROUGH_EXTRA = 100
BIG = 60000


def _mu_frac(mu):
    return {1: (1, 1), 1.5: (3, 2), 2: (2, 1)}[mu]


SHAPES = {
    # name: alloc paths
    'one': [['a']],
    'two': [['a'], ['b']],
    'nest': [['a'], ['a', 'a1']],
    'nest+': [['a'], ['a', 'a1'], ['b']],
    # a tenant with two allocations of (symbolically) different rank
    'tenant': [['t'], ['t', 'x'], ['t', 'y']],
}
ASSIGN = {
    'one': [(0, 0, 0)],
    'two': [(0, 0, 1), (0, 1, 0), (1, 0, 0)],
    'nest': [(0, 0, 1), (0, 1, 1), (1, 0, 0), (0, 1, 0)],
    'nest+': [(0, 1, 2), (1, 0, 2), (0, 0, 1), (2, 1, 1)],
    'tenant': [(1, 2, 2), (2, 1, 1), (1, 2, 0)],
}
RES = {
    'one': [(0,), (2,), (5,)],
    'two': [(2, 5), (0, 5), (5, 5)],
    'nest': [(2, 5), (5, 2), (0, 5)],
    'nest+': [(2, 5, 2), (5, 0, 5)],
    'tenant': [(0, 2, 2), (2, 0, 5)],
}
MU = {
    'one': [(None,), (1,), (1.5,)],
    'two': [(None, None), (1, None), (1.5, 2)],
    'nest': [(None, None), (1, None), (2, 1)],
    'nest+': [(None, None, None), (1, 2, None)],
    'tenant': [(None, None, None)],
}
PLACED = [(False, False, False), (True, False, False), (False, True, True)]


def subharnesses(tier):
    subs = []
    shapes = ['one', 'two', 'nest', 'tenant'] if tier == 'quick' else \
        ['one', 'two', 'nest', 'tenant', 'nest+']
    Ds = [1] if tier == 'quick' else [1, 2]
    for D in Ds:
        for sh in (shapes if D == 1 else shapes[:2]):
            for asg in ASSIGN[sh]:
                for res in RES[sh]:
                    for mu in MU[sh]:
                        for pl in (PLACED[:2] if tier == 'quick' and
                                   sh != 'one' else PLACED):
                            allocs = [{'path': [], 'label': '_default'}]
                            for ai, path in enumerate(SHAPES[sh]):
                                allocs.append({
                                    'path': path, 'label': '_default',
                                    'reserved': [res[ai]] * D,
                                    'rank': 'sym', 'rank_adjustment': 'sym',
                                    'max_utilization': mu[ai]})
                            apps = []
                            for i in range(3):
                                apps.append({
                                    'place': 0 if pl[i] else None,
                                    'alloc': ['_default'] + SHAPES[sh][asg[i]]})
                            spec = {'topo': 'T1', 'D': D,
                                    'servers': [{'capacity': [BIG] * D},
                                                {'capacity': [BIG] * D}],
                                    'allocs': allocs, 'apps': apps,
                                    'prio_order': 'free', 'shape': sh,
                                    'res': list(res), 'mu': list(mu),
                                    'asg': list(asg)}
                            name = '%s-D%d-a%s-r%s-m%s-%s' % (
                                sh, D, ''.join(map(str, asg)),
                                ''.join(map(str, res)),
                                '_'.join(str(m) for m in mu),
                                ''.join('P' if x else 'p' for x in pl))
                            subs.append((name, spec))
    # allocation changes re-assign an instance (Loader.load_app -> add_app):
    # there and back, and on to a third allocation, before the next cycle
    for moves, tag in (
            ([(0, ['_default', 'b']), (0, ['_default', 'a'])], 'aba'),
            ([(0, ['_default', 'b']), (1, ['_default', 'b']),
              (0, ['_default', 'a'])], 'ab_b_a'),
            ([(0, ['_default', 'b'])], 'ab')):
        allocs = [{'path': [], 'label': '_default'}]
        for ai, path in enumerate(SHAPES['two']):
            allocs.append({'path': path, 'label': '_default',
                           'reserved': [(2, 5)[ai]], 'rank': 'sym',
                           'rank_adjustment': 'sym', 'max_utilization': None})
        apps = [{'place': None, 'alloc': ['_default', 'a']} for _ in range(3)]
        spec = {'topo': 'T1', 'D': 1,
                'servers': [{'capacity': [BIG]}, {'capacity': [BIG]}],
                'allocs': allocs, 'apps': apps, 'prio_order': 'free',
                'shape': 'two', 'res': [2, 5], 'mu': [None, None],
                'asg': [0, 0, 0], 'moves': moves}
        subs.append(('two-D1-moves-%s' % tag, spec))
    # an allocations event rewrites an allocation that is already loaded: the
    # cap is withdrawn / introduced, the rank changes
    for mu0, mu1, tag in ((1, None, 'cap_withdrawn'), (None, 1, 'cap_added'),
                          (1.5, 2, 'cap_raised')):
        allocs = [{'path': [], 'label': '_default'},
                  {'path': ['a'], 'label': '_default', 'reserved': [2],
                   'rank': 100, 'rank_adjustment': 10,
                   'max_utilization': mu0}]
        apps = [{'place': None, 'alloc': ['_default', 'a']} for _ in range(3)]
        spec = {'topo': 'T1', 'D': 1,
                'servers': [{'capacity': [BIG]}, {'capacity': [BIG]}],
                'allocs': allocs, 'apps': apps, 'prio_order': 'free',
                'shape': 'one', 'res': [2], 'mu': [mu1], 'asg': [0, 0, 0],
                'updates': [[['_default', 'a'], [[2], 90, 5, mu1]]]}
        subs.append(('one-D1-update-%s' % tag, spec))
    return subs


def budget(tier, name):
    return 400.0 if tier == 'quick' else 600.0


def harness(S, spec):
    W = g1.build(S, spec)
    D = W.D
    for (i, key) in spec.get('moves', []):
        W.cell.add_app(W.allocs[tuple(key)], W.apps[i])
        S.reach('moved_between_allocations')
    for key, vals in spec.get('updates', []):
        g1.apply_event(W, ('alloc_update', key, vals))
        S.reach('allocation_updated')
    cell = W.cell
    pre_placed = {a.name: a.server is not None for a in W.apps}
    placement = cell.schedule()
    S.reach('scheduled')
    S.check('C06:partition_considered_other_than_once', len(W.queues) == 1)
    q = W.queues[0]
    # (1) every instance exactly once
    S.check('C06:queue_is_not_a_permutation_of_the_instances',
            sorted(q) == sorted(a.name for a in W.apps), {'queue': q})
    apps = [cell.apps[n] for n in q]
    unpl = _sys.maxsize
    ranks = [a.final_rank for a in apps]
    # (2) final ranks non-decreasing (unplaced rank = +inf)
    for x, y in zip(apps, apps[1:]):
        S.check('C06:lower_rank_does_not_come_first',
                S.z(x.final_rank) <= S.z(y.final_rank),
                {'first': x.name, 'second': y.name})
    # (3) instances of one allocation in (-priority, pending, order) order
    for i in range(len(apps)):
        for j in range(i + 1, len(apps)):
            x, y = apps[i], apps[j]
            if x.allocation is not y.allocation:
                continue
            px, py = S.z(x.priority), S.z(y.priority)
            pendx = 0 if pre_placed[x.name] else 1
            pendy = 0 if pre_placed[y.name] else 1
            later = (pendx, x.global_order) < (pendy, y.global_order)
            S.check('C06:priority_order_within_allocation_broken',
                    z3.Or(px > py, z3.And(px == py, z3.BoolVal(later))),
                    {'first': x.name, 'second': y.name})
    # (4) priority-0 after all others of the same rank
    for i in range(len(apps)):
        for j in range(i + 1, len(apps)):
            x, y = apps[i], apps[j]
            S.check('C06:priority_zero_instance_not_last_in_its_rank',
                    z3.Not(z3.And(S.z(x.final_rank) == S.z(y.final_rank),
                                  S.z(x.priority) == 0,
                                  S.z(y.priority) > 0)),
                    {'first': x.name, 'second': y.name})
    # (5), (6) per allocation, cumulative demand in queue order
    after = {n: sa for (n, _sb, _eb, sa, _ea) in placement}
    for key, alloc in W.allocs.items():
        if len(key) == 1:
            continue
        own = [a for a in apps if a.allocation is alloc]
        ai = [k for k, p in enumerate(
            [['_default'] + p for p in
             __import__('c06').SHAPES[spec['shape']]]) if tuple(p) == key][0]
        res = spec['res'][ai]
        mu = spec['mu'][ai]
        acc = [z3.IntVal(0)] * D
        for a in own:
            prev = acc
            acc = [acc[k] + S.z(a.demand[k]) for k in range(D)]
            positive = S.z(a.priority) > 0
            # configured rank / adjustment (harness variables, not what the
            # allocation object says after update())
            crank, cadj = W.alloc_terms[key]
            boosted = S.z(a.final_rank) == S.z(crank) - S.z(cadj)
            plain = S.z(a.final_rank) == S.z(crank)
            unranked = S.z(a.final_rank) == unpl
            within_res = z3.And(*[acc[k] < res for k in range(D)])
            cap_ok = z3.BoolVal(True)
            over_cap = z3.BoolVal(False)
            if mu is not None:
                n, d = _mu_frac(mu)
                cap_ok = z3.And(*[d * acc[k] < n * res for k in range(D)])
                over_cap = z3.Or(*[d * acc[k] > n * res for k in range(D)])
            # 5a
            S.check('C06:within_reservation_but_not_boosted',
                    z3.Implies(z3.And(positive, within_res, cap_ok), boosted),
                    {'app': a.name})
            # 5b
            beyond = z3.Or(*[prev[k] >= res for k in range(D)])
            S.check('C06:boosted_beyond_reservation',
                    z3.Implies(z3.And(beyond,
                                      S.z(W.alloc_terms[key][1]) > 0),
                               z3.Not(boosted)), {'app': a.name})
            S.check('C06:rank_is_none_of_boosted_plain_unplaced',
                    z3.Or(boosted, plain, unranked), {'app': a.name})
            # 6
            if mu is not None:
                S.check('C06:beyond_utilisation_cap_but_ranked',
                        z3.Implies(z3.And(positive, over_cap), unranked),
                        {'app': a.name})
                S.check('C06:within_utilisation_cap_but_unranked',
                        z3.Implies(z3.And(positive, cap_ok),
                                   z3.Not(unranked)), {'app': a.name})
                if S.possible(z3.And(positive, over_cap)):
                    S.reach('over_cap_possible')
            else:
                S.check('C06:uncapped_allocation_unranked',
                        z3.Not(unranked), {'app': a.name})
        for a in own:
            if a.final_rank == unpl:
                S.reach('unranked_instance')
                S.check('C06:instance_beyond_cap_is_scheduled',
                        after.get(a.name) is None, {'app': a.name})


META = {
    'functions_encoded': [
        'Allocation.priv_utilization_queue', 'Allocation.utilization_queue',
        'Allocation.total_reserved', 'Allocation.add', 'Allocation.update',
        'Allocation.get_sub_alloc', 'scheduler.utilization',
        'Cell.schedule_alloc', 'Cell._record_rank_and_util',
        'Cell._find_placements (unplaced-rank branch)'],
    'reach_required': ['scheduled', 'unranked_instance', 'over_cap_possible'],
}
