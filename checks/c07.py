"""C07 - a running instance is displaced only for an instance ahead of it."""
import g1

PROPERTY = 'C07'
THOROUGH_EXTRA = 60


def subharnesses(tier):
    subs = []
    if tier == 'quick':
        worlds = [('T1', 1, 3, 'all'), ('T2', 1, 3, 'none'),
                  ('T1', 2, 3, 'none')]
    else:
        worlds = [('T1', 1, 3, 'all'), ('T2', 1, 3, 'all'),
                  ('T1', 2, 3, 'none'), ('T2', 2, 3, 'none'),
                  ('T1', 1, 4, 'two')]
    for topo, D, A, evs in worlds:
        for pl in g1.placements(A, 2):
            if all(x is None for x in pl):
                continue      # nothing is running
            events = [('none',)]
            if evs == 'all':
                events += [('server_state', 1, 'down'),
                           ('set_priority', 0), ('set_priority', A - 1),
                           ('replace_server', 0, {})]
            if evs == 'two':
                events += [('server_state', 1, 'down')]
            if tier == 'thorough' and evs == 'all':
                events += [('server_state', 0, 'down'), ('set_priority', 1),
                           ('remove_server', 1)]
            for ev in events:
                spec = {'topo': topo, 'D': D, 'servers': [{}, {}],
                        'apps': [{'place': j} for j in pl],
                        'event': list(ev)}
                subs.append(('%s-D%d-A%d-%s-%s' % (
                    topo, D, A, g1.ptag(pl), g1.evtag(ev)), spec))
            # an instance ahead in the queue that no server can ever take
            # (needs a trait nobody offers): everything behind it is evicted
            # and must be put back
            for i in range(A):
                if pl[i] is not None:
                    continue
                apps = [{'place': j} for j in pl]
                apps[i]['traits'] = 1
                spec = {'topo': topo, 'D': D, 'servers': [{}, {}],
                        'apps': apps, 'event': ['none']}
                subs.append(('%s-D%d-A%d-%s-unplaceable%d' % (
                    topo, D, A, g1.ptag(pl), i), spec))
    # freeze with an unschedule list, then thaw before any cycle ran: the flag
    # is still set on an instance whose server is up again
    for topo in ('T1', 'T2'):
        for pl in [(0, None, None), (0, 1, None), (None, 0, 1), (0, 0, None)]:
            for i, j in enumerate(pl):
                if j is None:
                    continue
                apps = [{'place': x} for x in pl]
                apps[i]['unschedule'] = True
                spec = {'topo': topo, 'D': 1, 'servers': [{}, {}],
                        'apps': apps, 'event': ['none']}
                subs.append(('%s-D1-A3-%s-unschedule%d' % (
                    topo, g1.ptag(pl), i), spec))
    # two blacklisted instances ahead of a pending one that cannot be placed,
    # a running instance between them (A = 4)
    for topo in ('T1', 'T2'):
        for pl in [(None, None, 0, None), (0, None, 0, None),
                   (None, 1, 0, None), (0, 1, 1, None), (None, None, 0, 1)]:
            for bl in ((0, 1), (0, 3)):
                apps = [{'place': j} for j in pl]
                for b in bl:
                    apps[b]['blacklisted'] = True
                spec = {'topo': topo, 'D': 1, 'servers': [{}, {}],
                        'apps': apps, 'event': ['none']}
                subs.append(('%s-D1-A4-%s-blacklisted%s' % (
                    topo, g1.ptag(pl), ''.join(map(str, bl))), spec))
    # leased instances whose server's reboot date was pulled in after they
    # were placed (expiry and valid_until independent solver variables), behind
    # an instance nobody can take: the failed eviction sweep must give every
    # one of them its server back
    for topo in ('T1',):
        for pl in [(None, 0, 1), (None, 0, 0), (None, 0, None), (0, 1, None)]:
            apps = [{'place': j, 'lease': 3600 if j is not None else 0}
                    for j in pl]
            if pl[0] is None:
                apps[0]['traits'] = 1
            spec = {'topo': topo, 'D': 1, 'servers': [{}, {}],
                    'apps': apps, 'event': ['set_valid_until', 0, 1],
                    'sym_valid_until': True, 'sym_expiry': True}
            subs.append(('%s-D1-A3-%s-leased' % (topo, g1.ptag(pl)), spec))
            if pl[0] is None:
                # the instance ahead has the same shape as the running ones
                # (same lease, no trait) and is unplaceable only because no
                # server lives long enough for a NEW lease
                apps2 = [{'place': j, 'lease': 3600} for j in pl]
                spec2 = dict(spec, apps=apps2)
                subs.append(('%s-D1-A3-%s-leased_same_shape' % (
                    topo, g1.ptag(pl)), spec2))
    # the utilisation cap of an allocation is withdrawn (allocations event):
    # instances that were beyond it are ordinary running instances again
    for pl in [(None, 0, 1), (None, 0, 0), (0, 1, None)]:
        apps = [{'place': j, 'alloc': ['_default', 'cap']} for j in pl]
        if pl[0] is None:
            apps[0]['traits'] = 1
        spec = {'topo': 'T1', 'D': 1, 'servers': [{}, {}],
                'allocs': [{'path': [], 'label': '_default'},
                           {'path': ['cap'], 'label': '_default',
                            'reserved': [2], 'rank': 100,
                            'max_utilization': 1}],
                'apps': apps,
                'event': ['alloc_update', ['_default', 'cap'],
                          [[2], 100, 0, None]]}
        subs.append(('T1-D1-A3-%s-cap_withdrawn' % g1.ptag(pl), spec))
    # the rack above a healthy server is frozen / down (the server itself is
    # up) and an instance nobody can take is ahead in the queue
    for st in ('frozen', 'down'):
        for pl in [(None, 0, 1), (None, 0, 0), (None, 1, None)]:
            apps = [{'place': j} for j in pl]
            apps[0]['traits'] = 1
            spec = {'topo': 'T2', 'D': 1, 'servers': [{}, {}],
                    'apps': apps, 'event': ['bucket_state', 'rack:a', st]}
            subs.append(('T2-D1-A3-%s-rack_%s' % (g1.ptag(pl), st), spec))
    return subs


def budget(tier, name):
    return 400.0 if tier == 'quick' else 600.0


def harness(S, spec):
    W = g1.build(S, spec)
    g1.apply_event(W, tuple(spec['event']))
    for cycle in (1, 2):
        pre = g1.pre_info(W)
        del W.queues[:]
        placement = W.cell.schedule()
        g1.reach_branches(W)
        g1.c07_oracle(W, pre, placement, list(W.queues), None,
                      ':cycle%d' % cycle)
        if cycle == 2:
            for (n, sb, _eb, sa, _ea) in placement:
                S.check('C07:idle_second_cycle_changes_a_placement',
                        sb == sa, {'app': n, 'before': sb, 'after': sa})
    S.reach('scheduled')


META = {
    'functions_encoded': [
        'scheduler.Cell.schedule', 'Cell._find_placements (eviction loop, '
        'restore of evicted instances)', 'Allocation.utilization_queue',
        'Allocation.priv_utilization_queue', 'Bucket.put', 'Server.put',
        'Server.restore', 'Server.remove'],
    'reach_required': ['scheduled', 'eviction_put', 'restored_after_eviction',
                       'displaced_for_instance_ahead'],
}


def weight(name, spec):
    if 'set_priority' in name or 'replace_server' in name:
        return 5
    if 'unplaceable' in name:
        return 1
    return 2
