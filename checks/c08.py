"""C08 - server failure handling: data retention, frozen servers, blacklisting."""
import g1

PROPERTY = 'C08'
THOROUGH_EXTRA = 120


def _variants(tier):
    # (tag, server states, app overrides, events)
    v = [
        ('down', ['down', 'up'], {}, [['none']]),
        ('frozen', ['frozen', 'up'], {}, [['none']]),
        ('frozen-unsched', ['frozen', 'up'], {'unschedule_on0': True},
         [['none']]),
        ('frozen-then-down', ['frozen', 'up'], {},
         [['server_state', 0, 'down']]),
        ('up-then-down', ['up', 'up'], {}, [['server_state', 0, 'down']]),
        ('down-then-frozen', ['down', 'up'], {},
         [['server_state', 0, 'frozen']]),
        ('down-blacklist1', ['down', 'up'], {'blacklist': 1}, [['none']]),
        ('down-noretention1', ['down', 'up'], {'noretention': 1}, [['none']]),
    ]
    if tier == 'thorough':
        v += [
            ('both-down', ['down', 'down'], {}, [['none']]),
            ('down-frozen-down', ['down', 'up'], {},
             [['server_state', 0, 'frozen'], ['server_state', 0, 'down']]),
            ('frozen-blacklist0', ['frozen', 'up'], {'blacklist': 0},
             [['none']]),
        ]
    return v


def subharnesses(tier):
    subs = []
    worlds = [('T1', 1, 3)] if tier == 'quick' else \
        [('T1', 1, 3), ('T2', 1, 3), ('T1', 2, 3)]
    for topo, D, A in worlds:
        for tag, states, ov, events in (_variants(tier) if D == 1 else
                                        _variants('quick')[:4]):
            for pl in g1.placements(A, 2, symmetric=False):
                if not any(x == 0 for x in pl) and 'blacklist' not in ov:
                    continue     # nobody on the affected server
                apps = []
                for i, j in enumerate(pl):
                    a = {'place': j, 'retention': 'sym'}
                    if ov.get('noretention') == i:
                        a['retention'] = None
                    if ov.get('blacklist') == i:
                        a['blacklisted'] = True
                    if ov.get('unschedule_on0') and j == 0 and i == A - 1:
                        a['unschedule'] = True
                    apps.append(a)
                spec = {'topo': topo, 'D': D,
                        'servers': [{'state': s} for s in states],
                        'apps': apps, 'events': events}
                subs.append(('%s-D%d-A%d-%s-%s' % (topo, D, A, tag,
                                                   g1.ptag(pl)), spec))
    return subs


def budget(tier, name):
    return 400.0 if tier == 'quick' else 600.0


def harness(S, spec):
    W = g1.build(S, spec)
    for ev in spec['events']:
        g1.apply_event(W, tuple(ev))
    pre = g1.c08_pre(W)
    placement = W.cell.schedule()
    g1.reach_branches(W)
    g1.c08_oracle(W, pre, placement)
    S.reach('scheduled')


META = {
    'functions_encoded': [
        'scheduler.Cell.schedule', 'Cell._handle_inactive_servers',
        'Cell._handle_blacklisted_apps', 'Cell._find_placements',
        'Node.set_state', 'Server.set_state', 'Bucket.put', 'Server.put',
        'Server.remove'],
    'reach_required': ['scheduled', 'kept_on_down_server',
                       'moved_off_down_server', 'on_frozen_server',
                       'unschedule_on_frozen', 'blacklisted_kept_off',
                       'eviction_put'],
}
