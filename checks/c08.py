"""C08 - server failure handling: data retention, frozen servers, blacklisting."""
import g1

PROPERTY = 'C08'
THOROUGH_EXTRA = 120


def _variants(tier):
    # (tag, server states, app overrides, events)
    v = [
        ('down', ['down', 'up'], {}, [['none']]),
        ('frozen', ['frozen', 'up'], {}, [['none']]),
        ('frozen-unsched', ['frozen', 'up'], {'unschedule_on0': True},
         [['none']]),
        ('frozen-then-down', ['frozen', 'up'], {},
         [['server_state', 0, 'down']]),
        ('up-then-down', ['up', 'up'], {}, [['server_state', 0, 'down']]),
        ('down-then-frozen', ['down', 'up'], {},
         [['server_state', 0, 'frozen']]),
        ('down-blacklist1', ['down', 'up'], {'blacklist': 1}, [['none']]),
        ('down-noretention1', ['down', 'up'], {'noretention': 1}, [['none']]),
    ]
    if tier == 'thorough':
        v += [
            ('both-down', ['down', 'down'], {}, [['none']]),
            ('down-frozen-down', ['down', 'up'], {},
             [['server_state', 0, 'frozen'], ['server_state', 0, 'down']]),
            ('frozen-blacklist0', ['frozen', 'up'], {'blacklist': 0},
             [['none']]),
        ]
    return v


def subharnesses(tier):
    subs = []
    worlds = [('T1', 1, 3)] if tier == 'quick' else \
        [('T1', 1, 3), ('T2', 1, 3), ('T1', 2, 3)]
    for topo, D, A in worlds:
        for tag, states, ov, events in (_variants(tier) if D == 1 else
                                        _variants('quick')[:4]):
            for pl in g1.placements(A, 2, symmetric=False):
                if not any(x == 0 for x in pl) and 'blacklist' not in ov:
                    continue     # nobody on the affected server
                apps = []
                for i, j in enumerate(pl):
                    a = {'place': j, 'retention': 'sym'}
                    if ov.get('noretention') == i:
                        a['retention'] = None
                    if ov.get('blacklist') == i:
                        a['blacklisted'] = True
                    if ov.get('unschedule_on0') and j == 0 and i == A - 1:
                        a['unschedule'] = True
                    apps.append(a)
                spec = {'topo': topo, 'D': D,
                        'servers': [{'state': s} for s in states],
                        'apps': apps, 'events': events}
                subs.append(('%s-D%d-A%d-%s-%s' % (topo, D, A, tag,
                                                   g1.ptag(pl)), spec))
    # an unschedule request that was never served on the server it was made
    # for (the server went down first / the instance was evicted): it must not
    # follow the instance to the next server that gets frozen
    for topo in ('T1', 'T2'):
        for pl in ((0, None, None), (0, 1, None), (0, 0, None)):
            for st0 in ('down', 'frozen'):
                apps = [{'place': j, 'retention': None} for j in pl]
                apps[0]['unschedule'] = True
                spec = {'topo': topo, 'D': 1,
                        'servers': [{'state': st0}, {}], 'apps': apps,
                        'phases': [[['none']],
                                   [['server_state', 1, 'frozen']],
                                   [['server_state', 0, 'up'],
                                    ['server_state', 1, 'up']],
                                   [['server_state', 0, 'frozen']]]}
                subs.append(('%s-D1-A3-stale_unschedule-%s-%s' % (
                    topo, st0, g1.ptag(pl)), spec))
    return subs + _master_subs(tier)


RET = 7200


def _master_subs(tier):
    """Master level (real Master / Loader on MemBackend): the retention clock
    of a server that fails a second time.  Between the two outages the server
    comes back unchanged, or re-registers with a changed record (servers
    event -> Loader.reload_server builds a new Server object), or comes back
    while no master runs (the next master rebuilds the model); every time the
    state record of the server has to follow.  The time a server went down is
    kept by the harness (clock at the presence event)."""
    subs = []
    for back in ('plain', 'edited_then_up', 'up_then_edited', 'failover',
                 'failover_edited'):
        for gap in (600, 3 * RET, 'sym'):
            for recs in ([[0], []], [[0], [0]], [[0], [1]]):
                # capacities / demands concrete (two regimes): time is the
                # subject here
                for cap in ((8, 8), (4, 8)):
                    if gap == 'sym' and (back.startswith('failover') or
                                         cap != (8, 8)):
                        # a new master reads the clock into datetime (reboot
                        # schedule): the clock has to be concrete there
                        continue
                    spec = {'level': 'master', 'nservers': 2, 'back': back,
                            'gap': gap, 'regime_dems': [3, 3, 3, 3],
                            'servers': [{'memory': c} for c in cap],
                            'apps': [{'recorded': r, 'memory': 3,
                                      'retention': '%ds' % RET}
                                     for r in recs]}
                    subs.append(('master-second_outage-%s-gap%s-%s-cap%d%d' % (
                        back, gap, ''.join(
                            str(len(r)) + (str(r[0]) if r else '')
                            for r in recs), cap[0], cap[1]), spec))
                continue
                spec = {}
                subs.append(('master-second_outage-%s-gap%d-%s' % (
                    back, gap, ''.join(str(len(r)) + (str(r[0]) if r else '')
                                       for r in recs)), spec))
    # start-up (fail-over) with a non-empty application blacklist: a
    # blacklisted instance is never placed and is removed if it was
    for recs in ([[0], []], [[], []], [[0], [1]]):
        for bl in (['proid.web'], ['proid.w*'], ['proid.other']):
            spec = {'level': 'master_blacklist', 'nservers': 2,
                    'regime_dems': [3, 3, 3, 3], 'apps_blacklist': bl,
                    'servers': [{'memory': 8}, {'memory': 8}],
                    'apps': [{'recorded': r, 'memory': 3} for r in recs]}
            subs.append(('master-startup_blacklist-%s-%s' % (
                ''.join(str(len(r)) for r in recs),
                bl[0].replace('*', 'X')), spec))
    return subs


def _master_blacklist(S, spec):
    import fnmatch
    import g2
    W = g2.base_store(S, spec)
    m = g2.new_master(W)
    g2.start(W, m)
    for k in range(2):
        for name, app in m.cell.apps.items():
            black = any(fnmatch.fnmatch(name.split('#')[0], pat)
                        for pat in spec['apps_blacklist'])
            if black:
                S.reach('blacklisted_instance_at_startup')
                S.check('C08:blacklisted_instance_is_placed:startup%d' % k,
                        app.server is None, {'app': name,
                                             'server': app.server})
        stored = g2.stored_placement(W.backend)
        for (srv, name) in stored:
            black = any(fnmatch.fnmatch(name.split('#')[0], pat)
                        for pat in spec['apps_blacklist'])
            S.check('C08:blacklisted_instance_is_published:startup%d' % k,
                    not black, {'app': name, 'server': srv})
        g2.cycle(W, m)
    S.reach('scheduled')
    S.reach('master_level')


def _master_harness(S, spec):
    import g2
    W = g2.base_store(S, spec)
    b = W.backend
    m = g2.new_master(W)
    g2.start(W, m)
    down_since = {}
    holder = {'m': m}

    def on_server(name):
        app = holder['m'].cell.apps.get(name)
        return app.server if app is not None else None

    def cycle(tag):
        mm = holder['m']
        before = {n: a.server for n, a in mm.cell.apps.items()}
        g2.cycle(W, mm)
        now = g2.VT.now
        for n, srv in before.items():
            if srv is None or srv not in down_since:
                continue
            if b.exists('/server.presence/' + srv):
                continue
            if now < down_since[srv] + RET:
                S.reach('kept_within_retention')
                S.check('C08:lost_placement_before_retention_expired' + tag,
                        on_server(n) == srv,
                        {'app': n, 'server': srv,
                         'down_for': now - down_since[srv],
                         'retention': RET})
            else:
                S.reach('retention_over')
                S.check('C08:kept_on_down_server_after_retention' + tag,
                        on_server(n) != srv,
                        {'app': n, 'server': srv,
                         'down_for': now - down_since[srv]})

    def down(j):
        g2.apply_event(W, holder['m'], ['presence_down', j])
        down_since[g2.SERVERS[j]] = g2.VT.now

    cycle(':start')
    down(0)
    cycle(':first_outage')
    if spec['gap'] == 'sym':
        # every interval of the history is a solver variable
        g2.VT.now = g2.VT.now + S.int('gap_first_outage', 1, 4 * RET)
    else:
        g2.VT.now += spec['gap']
    cycle(':first_outage_later')
    back = spec['back']
    if back == 'plain':
        g2.apply_event(W, m, ['presence_up', 0])
    elif back == 'edited_then_up':
        g2.apply_event(W, m, ['server_edit', 0])
        g2.apply_event(W, m, ['presence_up', 0])
    elif back == 'up_then_edited':
        g2.apply_event(W, m, ['presence_up', 0])
        g2.apply_event(W, m, ['server_edit', 0])
    else:
        # the server returns while no master runs; a new master takes over
        b.seed('/server.presence/s0', {})
        if back == 'failover_edited':
            data = dict(b.get('/servers/s0'))
            data['memory'] = data['memory'] - 2
            W.cap['s0'] = data['memory']
            b.nodes['/servers/s0'][0] = data
        m = g2.new_master(W)
        holder['m'] = m
        g2.start(W, m)
    down_since.pop('s0', None)
    cycle(':back')
    if spec['gap'] == 'sym':
        g2.VT.now = g2.VT.now + S.int('gap_up', 1, 6 * RET)
        cycle(':back_later')
        down(0)
        cycle(':second_outage')
        g2.VT.now = g2.VT.now + S.int('gap_second_outage', 1, 2 * RET)
        cycle(':second_outage_later')
    else:
        g2.VT.now += 5 * RET
        cycle(':back_later')
        down(0)
        cycle(':second_outage')
        g2.VT.now += RET // 2
        cycle(':second_outage_half')
        g2.VT.now += RET
        cycle(':second_outage_over')
    S.reach('scheduled')
    S.reach('master_level')


def budget(tier, name):
    return 400.0 if tier == 'quick' else 600.0


def _phases(S, spec):
    """Several cycles with events in between; unschedule requests are kept
    by the harness and are consumed when the instance leaves the server."""
    W = g1.build(S, spec)
    W.marks = {W.apps[i].name for i, ap in enumerate(spec['apps'])
               if ap.get('unschedule')}
    marked_on = {n: W.cell.apps[n].server for n in W.marks}
    for k, events in enumerate(spec['phases']):
        for ev in events:
            g1.apply_event(W, tuple(ev))
        pre = g1.c08_pre(W)
        del W.log[:]              # the branch log is per cycle
        placement = W.cell.schedule()
        g1.c08_oracle(W, pre, placement, ':phase%d' % (k + 1))
        for n in list(W.marks):
            app = W.cell.apps.get(n)
            if app is None or app.server != marked_on[n]:
                W.marks.discard(n)
    S.reach('scheduled')
    S.reach('several_phases')


def harness(S, spec):
    if spec.get('level') == 'master':
        return _master_harness(S, spec)
    if spec.get('level') == 'master_blacklist':
        return _master_blacklist(S, spec)
    if 'phases' in spec:
        return _phases(S, spec)
    W = g1.build(S, spec)
    for ev in spec['events']:
        g1.apply_event(W, tuple(ev))
    pre = g1.c08_pre(W)
    placement = W.cell.schedule()
    g1.reach_branches(W)
    g1.c08_oracle(W, pre, placement)
    S.reach('scheduled')


META = {
    'functions_encoded': [
        'scheduler.Cell.schedule', 'Cell._handle_inactive_servers',
        'Cell._handle_blacklisted_apps', 'Cell._find_placements',
        'Node.set_state', 'Server.set_state', 'Bucket.put', 'Server.put',
        'Server.remove', 'Loader.adjust_server_state',
        'Loader.reload_server', 'Loader._record_server_state',
        'Master.process_server_presence', 'Master.load_model (fail-over)'],
    'reach_required': ['scheduled', 'kept_on_down_server',
                       'moved_off_down_server', 'on_frozen_server',
                       'unschedule_on_frozen', 'blacklisted_kept_off',
                       'eviction_put', 'master_level',
                       'kept_within_retention', 'retention_over',
                       'several_phases'],
}
