"""C09 - the published placement equals the scheduler's model after every cycle."""
import itertools

import g2

PROPERTY = 'C09'
THOROUGH_EXTRA = 80

EVENTS = [
    ['none'],
    ['schedule', 2],
    ['delete', 0],
    ['presence_down', 0],
    ['presence_up', 1],           # only meaningful when s1 starts without
    ['server_edit', 0],
    ['server_edit', 0, 'shrink'],
    ['identity_groups', 'g', 1],
    ['identity_groups', 'g', None],
    ['apps_blacklist', ['proid.web']],
    ['server_state', 0, 'frozen', [g2.APPS[0]]],
    ['server_state', 0, 'down'],
    ['server_state', 0, 'up'],
    ['server_relabel', 0, 'p1'],
]


def _stores(tier):
    """Stored states the first master starts from."""
    out = []
    # each of two scheduled instances recorded under no / s0 / s1 / both
    recs = [[], [0], [1], [0, 1]]
    for r0, r1 in itertools.product(recs, repeat=2):
        out.append(('r%s_%s' % (''.join(map(str, r0)) or 'n',
                                ''.join(map(str, r1)) or 'n'),
                    {'apps': [{'recorded': r0}, {'recorded': r1}]}))
    # identity group, recorded identities
    out.append(('ig', {'apps': [{'recorded': [0], 'ig': 'g', 'identity': 0},
                                {'recorded': [1], 'ig': 'g', 'identity': 1}],
                       'igroups': {'g': 2}}))
    out.append(('ig-pending', {'apps': [{'recorded': [0], 'ig': 'g',
                                         'identity': 0},
                                        {'recorded': [], 'ig': 'g'}],
                               'igroups': {'g': 1}}))
    # the group was shrunk while the master was away: recorded identity 1 is
    # no longer valid
    out.append(('ig-shrunk', {'apps': [{'recorded': [0], 'ig': 'g',
                                        'identity': 0},
                                       {'recorded': [1], 'ig': 'g',
                                        'identity': 1}],
                              'igroups': {'g': 1}}))
    out.append(('ig-shrunk-swapped', {'apps': [{'recorded': [0], 'ig': 'g',
                                                'identity': 1},
                                               {'recorded': [], 'ig': 'g'}],
                                      'igroups': {'g': 1}}))
    # a server that is down in the stored state, retention running
    out.append(('down0', {'apps': [{'recorded': [0], 'retention': '30s'},
                                   {'recorded': [1]}],
                          'presence': [False, True],
                          'states': ['down', None]}))
    out.append(('nopres1', {'apps': [{'recorded': [0]}, {'recorded': []}],
                            'presence': [True, False],
                            'states': [None, 'down']}))
    out.append(('once', {'apps': [{'recorded': [0], 'schedule_once': True},
                                  {'recorded': [1]}]}))
    out.append(('stale', {'apps': [{'recorded': [0]},
                                   {'recorded': [1], 'unscheduled': True}]}))
    return out


QUICK = {
    'rn_n': [0, 1, 5], 'r0_n': [0, 2, 3, 5, 6, 13],
    'r0_1': [0, 1, 2, 3, 6, 13],
    'r01_n': [0, 3, 5, 6], 'rn_01': [0, 6], 'r0_0': [3, 6],
    'ig': [0, 3, 7, 8], 'ig-pending': [0, 2, 7, 8], 'ig-shrunk': [0, 3],
    'ig-shrunk-swapped': [0, 5], 'down0': [0, 12, 1], 'nopres1': [0, 4],
    'once': [0, 3, 9, 10], 'stale': [0, 3],
    'r1_n': [10, 11], 'r1_0': [9, 10, 13],
}


def subharnesses(tier):
    subs = []
    for sname, store in _stores(tier):
        if tier == 'quick':
            evs = [EVENTS[i] for i in QUICK.get(sname, [])]
        else:
            evs = EVENTS
        for ev in evs:
            if ev[0] == 'presence_up' and store.get('presence',
                                                    [True, True])[1]:
                continue
            if ev[0] == 'identity_groups' and 'igroups' not in store:
                continue
            spec = dict(store, nservers=2, events=[ev])
            subs.append(('%s-%s' % (sname, '_'.join(
                str(x) for x in ev if not isinstance(x, (list, dict)))),
                spec))
            if tier == 'thorough' and ev[0] in ('presence_down', 'schedule',
                                                'server_edit') and \
                    sname in ('r0_1', 'ig', 'r01_n', 'once'):
                for ev2 in (['presence_down', 1], ['delete', 1],
                            ['schedule', 3]):
                    spec = dict(store, nservers=2, events=[ev, ev2],
                                restart_between=True)
                    subs.append(('%s-%s-then-%s-restart' % (
                        sname, ev[0] + str(ev[1]), ev2[0]), spec))
    # a configuration change invalidates published placements: the allocation
    # moves to another partition, or gains a trait the server does not offer
    # (Cell._fix_invalid_placements takes the instance off; the record under
    # the old server has to go as well)
    ALLOC = {'name': 'proid/x', 'partition': 'p0', 'rank': 100,
             'memory': '0G', 'cpu': '0%', 'disk': '0G',
             'assignments': [{'pattern': 'proid.web*', 'priority': 50}]}
    for recs in ([[0], [0]], [[0], []], [[0], [1]]):
        for tag, servers, alloc1 in (
                ('moves_partition',
                 [{'partition': 'p0'}, {'partition': 'p1'}],
                 dict(ALLOC, partition='p1')),
                ('gains_trait',
                 [{'partition': 'p0', 'traits': []},
                  {'partition': 'p0', 'traits': ['ssd']}],
                 dict(ALLOC, traits=['ssd']))):
            if tag == 'moves_partition' and recs[1] == [1]:
                continue
            spec = {'apps': [{'recorded': r} for r in recs], 'nservers': 2,
                    'servers': servers, 'traits': ['ssd'],
                    'allocations': [dict(ALLOC)],
                    'events': [['allocations', [alloc1]], ['none']]}
            subs.append(('alloc-%s-%s' % (tag, ''.join(
                str(len(r)) + (str(r[0]) if r else '') for r in recs)), spec))
    # an instance is unscheduled while an 'apps' event naming it is queued;
    # the master handles the event before (or after) the /scheduled watch
    stores = dict(_stores(tier))
    for sname in ('r0_1', 'ig'):
        for order in ('event_first', 'watch_first'):
            evs = [['unschedule_silently', 0]]
            evs += [['apps_event', [0, 1]], ['scheduled_watch']] \
                if order == 'event_first' else \
                [['scheduled_watch'], ['apps_event', [0, 1]]]
            spec = dict(stores[sname], nservers=2, events=evs)
            subs.append(('%s-unscheduled_with_apps_event-%s' % (sname, order),
                         spec))
    return subs


def budget(tier, name):
    return 400.0 if tier == 'quick' else 600.0


def harness(S, spec):
    W = g2.base_store(S, spec)
    m = g2.new_master(W)
    g2.start(W, m)
    S.reach('started')
    g2.c09_oracle(W, m, ':after_init')
    for k, ev in enumerate(spec['events']):
        if spec.get('restart_between') and k == 1:
            m = g2.new_master(W)
            g2.start(W, m)
            g2.c09_oracle(W, m, ':after_restart')
        g2.apply_event(W, m, ev)
        g2.cycle(W, m)
        S.reach('cycle_after_event')
        g2.c09_oracle(W, m, ':after_cycle%d' % (k + 1))
    # an idle cycle later
    g2.cycle(W, m)
    g2.c09_oracle(W, m, ':after_idle_cycle')


META = {
    'functions_encoded': [
        'Master.init_schedule', 'Master.reschedule',
        'Master.check_placement_integrity', 'Master.process_scheduled',
        'Master.process_server_presence', 'Master.process_events',
        'Master._handle_*_event', 'Master.remove_app',
        'Master._unschedule_evicted', 'Master._freeze_server',
        'Master._record_server_state', 'Master._placement_data',
        'Loader.load_model (all load_* steps)', 'Loader.restore_placements',
        'Loader.restore_placement', 'Loader.reload_server',
        'Loader.remove_server', 'Loader.adjust_presence',
        'Loader.adjust_server_state', 'Loader.load_app',
        'Loader.find_assignment', 'scheduler.Cell.schedule'],
    'reach_required': ['started', 'cycle_after_event'],
}


def weight(name, spec):
    if 'server_edit' in name or 'schedule' in name:
        return 5
    if 'presence_down' in name or 'r01' in name:
        return 3
    return 1
