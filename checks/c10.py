"""C10 - a master crash at any point never leaves an instance placed twice."""
import g2
from g2 import Crash

PROPERTY = 'C10'
THOROUGH_EXTRA = 40


def _stores(tier):
    out = [
        ('r0_1', {'apps': [{'recorded': [0]}, {'recorded': [1]}]}),
        ('r0_0', {'apps': [{'recorded': [0]}, {'recorded': [0]}]}),
        ('r0_n', {'apps': [{'recorded': [0]}, {'recorded': []}]}),
        ('dup', {'apps': [{'recorded': [0, 1]}, {'recorded': [1]}]}),
        ('ig', {'apps': [{'recorded': [0], 'ig': 'g', 'identity': 0},
                         {'recorded': [1], 'ig': 'g', 'identity': 1}],
                'igroups': {'g': 2}}),
        ('once', {'apps': [{'recorded': [0], 'schedule_once': True},
                           {'recorded': [1]}]}),
    ]
    if tier == 'thorough':
        out += [
            ('rn_n', {'apps': [{'recorded': []}, {'recorded': []}]}),
            ('dupdup', {'apps': [{'recorded': [0, 1]}, {'recorded': [0, 1]}]}),
            ('down0', {'apps': [{'recorded': [0], 'retention': '30s'},
                                {'recorded': [1]}],
                       'presence': [False, True], 'states': ['down', None]}),
        ]
    return out


ALLOC = {'name': 'proid/x', 'partition': 'p0', 'rank': 100, 'memory': '0G',
         'cpu': '0%', 'disk': '0G',
         'assignments': [{'pattern': 'proid.web*', 'priority': 50}]}

EVENTS = [['none'], ['presence_down', 0], ['schedule', 2], ['delete', 0],
          ['server_edit', 0, 'shrink'], ['server_state', 0, 'frozen',
                                         [g2.APPS[0]]],
          ['apps_blacklist', ['proid.web']]]


# The crash index and the znode ctimes are the solver variables here;
# capacities / demands come from two concrete regimes so that each crash point
# is not multiplied by every capacity outcome (C09 keeps those symbolic).
REGIMES = {
    'tight': {'caps': [6, 6], 'dems': [5, 5, 5, 5]},     # one per server
    'mixed': {'caps': [9, 4], 'dems': [4, 3, 5, 2]},
}


def _with_regime(store, rg):
    r = REGIMES[rg]
    st = dict(store)
    st['apps'] = [dict(a, memory=r['dems'][i])
                  for i, a in enumerate(store['apps'])]
    st['servers'] = [{'memory': c} for c in r['caps']]
    st['regime'] = rg
    st['regime_dems'] = r['dems']
    return st


def subharnesses(tier):
    subs = []
    # symbolic capacities / demands for the two most telling stores
    for sname, store in _stores(tier):
        if sname != 'r0_1' and tier == 'quick':
            continue
        if tier == 'thorough' and sname not in ('r0_1', 'dup', 'ig'):
            continue
        for ev in ([] if tier == 'quick' else EVENTS[1:4]):
            spec = dict(store, nservers=2, events=[ev], crash_in='cycle',
                        regime='sym')
            subs.append(('%s-sym-%s-crash_in_cycle' % (sname, '_'.join(
                str(x) for x in ev if not isinstance(x, (list, dict)))),
                spec))
        spec = dict(store, nservers=2, events=[], crash_in='init',
                    regime='sym')
        subs.append(('%s-sym-crash_in_init' % sname, spec))
    # two partitions; the allocation of the instances moves from p0 to p1
    for recs in ([[0], [0]], [[0], []]):
        st = {'apps': [{'recorded': r, 'memory': 3} for r in recs],
              'servers': [{'memory': 8, 'partition': 'p0'},
                          {'memory': 8, 'partition': 'p1'}],
              'allocations': [dict(ALLOC)], 'regime_dems': [3, 3, 3, 3]}
        ev = ['allocations', [dict(ALLOC, partition='p1')]]
        spec = dict(st, nservers=2, events=[ev], crash_in='cycle')
        subs.append(('alloc-moves-partition-%s-crash_in_cycle' % ''.join(
            str(len(r)) for r in recs), spec))
    for sname, store in _stores(tier):
        for rg in REGIMES:
            st = _with_regime(store, rg)
            spec = dict(st, nservers=2, events=[], crash_in='init')
            subs.append(('%s-%s-crash_in_init' % (sname, rg), spec))
            for ev in EVENTS:
                if ev[0] == 'none':
                    continue
                if tier == 'quick' and rg == 'mixed' and \
                        ev[0] in ('apps_blacklist', 'delete'):
                    continue
                spec = dict(st, nservers=2, events=[ev], crash_in='cycle')
                subs.append(('%s-%s-%s-crash_in_cycle' % (sname, rg, '_'.join(
                    str(x) for x in ev if not isinstance(x, (list, dict)))),
                    spec))
    # the masters post trace events for real (app_events_dir set): the start-up
    # of the new master after a crash must survive that too
    for sname, store in _stores(tier):
        if sname not in ('r0_1', 'rn_n', 'r0_n'):
            continue
        st = _with_regime(store, 'tight')
        for ev in (['schedule', 2], ['presence_down', 0]):
            spec = dict(st, nservers=2, events=[ev], crash_in='cycle',
                        post_events=True)
            subs.append(('%s-tight-%s-crash_in_cycle-trace_events' % (
                sname, '_'.join(str(x) for x in ev)), spec))
    return subs


def budget(tier, name):
    return 400.0 if tier == 'quick' else 600.0


def harness(S, spec):
    W = g2.base_store(S, spec)
    b = W.backend
    if spec.get('post_events'):
        W.events_dir = 'fresh'
    m = g2.new_master(W)
    crashed = False
    k = S.int('crash_before_write', 0, 40)
    try:
        if spec['crash_in'] == 'init':
            m.load_model()
            b.crash_at = k
            b.armed = True
            m.init_schedule()
            b.armed = False
        else:
            g2.start(W, m)
            for ev in spec['events']:
                g2.apply_event(W, m, ev)
            b.crash_at = k
            b.armed = True
            g2.cycle(W, m)
            b.armed = False
        S.assume(False)          # k beyond the number of writes: not a crash
    except Crash:
        crashed = True
        b.armed = False
    S.reach('crashed')
    ops = [e[0] for e in b.log]
    ci = ops.index('CRASH-BEFORE')
    before = [e for e in b.log[:ci] if e[0] in ('put', 'delete')
              and e[1].count('/') == 3 and e[1].startswith('/placement/')]
    if before and before[-1][0] == 'delete':
        S.reach('crash_right_after_a_delete')
    if any(e[0] == 'put' for e in before):
        S.reach('crash_after_a_put')
    # at the instant of the crash nothing is published twice - unless the
    # duplicate was already in the stored state the first master started from
    if not any(len(a.get('recorded', [])) > 1 for a in spec['apps']) or \
            spec['crash_in'] == 'cycle':
        g2.no_duplicates(W, ':at_crash')
    # a newly elected master on that stored state
    g2.VT.now += 30
    m2 = g2.new_master(W)
    try:
        m2.load_model()
        m2.init_schedule()
        m2.check_placement_integrity()
    except AssertionError as e:
        S.fail('C10:new_master_fails_its_integrity_check', {'error': repr(e)})
    except (AttributeError, TypeError, KeyError, ValueError) as e:
        import traceback
        S.fail('C10:new_master_does_not_complete_start_up',
               {'error': repr(e), 'trace': traceback.format_exc()[-500:]})
    S.reach('restarted')
    g2.c09_oracle(W, m2, ':after_restart')
    g2.cycle(W, m2)
    g2.c09_oracle(W, m2, ':after_restart_cycle')


META = {
    'functions_encoded': [
        'Master.reschedule (two-pass publication)', 'Master.init_schedule',
        'Master._unschedule_evicted', 'Master.remove_app',
        'Master.check_placement_integrity', 'Loader.restore_placements',
        'Loader.restore_placement', 'Loader.load_model',
        'scheduler.Cell.schedule'],
    'reach_required': ['crashed', 'restarted', 'crash_right_after_a_delete',
                       'crash_after_a_put'],
}


def weight(name, spec):
    return 10 if '-sym-' in name else 1
