"""C11 - a restarted master reloads exactly the placement that was published."""
import z3

import g2

PROPERTY = 'C11'
THOROUGH_EXTRA = 60


def _stores(tier):
    out = [
        ('plain', {'apps': [{'recorded': []}, {'recorded': []},
                            {'recorded': []}]}),
        ('ig', {'apps': [{'recorded': [], 'ig': 'g'},
                         {'recorded': [], 'ig': 'g'},
                         {'recorded': []}], 'igroups': {'g': 2}}),
        ('ig1', {'apps': [{'recorded': [], 'ig': 'g'},
                          {'recorded': [], 'ig': 'g'}],
                 'igroups': {'g': 1}}),
        ('once', {'apps': [{'recorded': [], 'schedule_once': True},
                           {'recorded': []}]}),
        ('lease', {'apps': [{'recorded': [], 'lease': '1h'},
                            {'recorded': []}]}),
        ('longlease', {'apps': [{'recorded': [], 'lease': '20h'},
                                {'recorded': [], 'lease': '2d'}]}),
        # a server offers a trait that is not in the cell-wide /traits list
        # (registered on the fly by create_server), one that is; instances
        # ask for them
        ('traits', {'traits': ['ssd'],
                    'servers': [{'traits': ['gpu']}, {'traits': ['ssd']}],
                    'apps': [{'recorded': [], 'traits': ['ssd']},
                             {'recorded': []}]}),
        # partitions and an allocation with a trait
        ('parts', {'traits': ['ssd'],
                   'servers': [{'partition': 'p0', 'traits': ['ssd']},
                               {'partition': 'p1'}],
                   'allocations': [
                       {'name': 'proid/x', 'partition': 'p0', 'rank': 100,
                        'memory': '0G', 'cpu': '0%', 'disk': '0G',
                        'traits': ['ssd'],
                        'assignments': [{'pattern': 'proid.web*',
                                         'priority': 50}]}],
                   'apps': [{'recorded': []}, {'recorded': []}]}),
    ]
    return out


EVENTS = [['none'], ['presence_down', 0], ['identity_groups', 'g', 1],
          ['schedule', 3], ['delete', 0], ['server_state', 1, 'frozen', []]]

# what happens between publication and the restart
BETWEEN = ['nothing', 'stale_record_first', 'presence_restarted0',
           'presence_gone0', 'record_shrunk0', 'blackedout0',
           'valid_until_pulled_in0']


def subharnesses(tier):
    subs = []
    for sname, store in _stores(tier):
        for ev in EVENTS:
            if ev[0] == 'identity_groups' and 'igroups' not in store:
                continue
            if ev[0] == 'schedule' and len(store['apps']) > 2:
                continue
            for bt in (BETWEEN if tier == 'thorough' or ev[0] == 'none'
                       else (BETWEEN[:2] if ev[0] == 'presence_down'
                             else BETWEEN[:1])):
                spec = dict(store, nservers=2, events=[ev], between=bt)
                subs.append(('%s-%s-%s' % (sname, '_'.join(
                    str(x) for x in ev if not isinstance(x, (list, dict))),
                    bt), spec))
    # an instance asking for the on-the-fly trait is scheduled while the first
    # master runs (its servers are long registered)
    store = dict(_stores(tier))['traits']
    for bt in BETWEEN[:2]:
        spec = dict(store, nservers=2,
                    events=[['schedule', 2, {'traits': ['gpu']}]], between=bt)
        subs.append(('traits-schedule_gpu-%s' % bt, spec))
    for sname in ('lease', 'longlease'):
        store = dict(_stores(tier))[sname]
        for ev in (['none'], ['presence_down', 1]):
            spec = dict(store, nservers=2, events=[ev],
                        between='valid_until_pulled_in0')
            subs.append(('%s-%s-valid_until_pulled_in0' % (sname, ev[0]),
                         spec))
    return subs


def budget(tier, name):
    return 400.0 if tier == 'quick' else 600.0


def harness(S, spec):
    W = g2.base_store(S, spec)
    b = W.backend
    m1 = g2.new_master(W)
    g2.start(W, m1)
    for ev in spec['events']:
        g2.apply_event(W, m1, ev)
        g2.cycle(W, m1)
    S.reach('published')
    published = g2.stored_placement(b)
    model1 = {n: (a.server, a.identity, a.placement_expiry)
              for n, a in m1.cell.apps.items()}
    states1 = {n: s.state.value for n, s in m1.servers.items()}
    changed = set()
    bt = spec['between']
    if bt == 'stale_record_first':
        # left-over records of instances that were deleted while no master
        # ran; their names sort before the healthy ones
        for srv in ('s0', 's1'):
            b.seed('/placement/%s/proid.aaa#0000000009' % srv,
                   {'identity': None, 'expires': 1})
    if bt == 'valid_until_pulled_in0':
        # the reboot date recorded for the server now lies before the expiry
        # of the leases placed on it (reboot schedule changed): the recorded
        # placement is restored all the same
        # (a reboot date has to be one of the partition's reboot buckets: the
        # earliest one, tonight)
        part = m1.cell.partitions['_default']
        b.nodes['/server.presence/s0'][0] = {
            'valid_until': part._reboot_buckets[0].timestamp}
        S.reach('reboot_date_pulled_in')
    if bt == 'blackedout0':
        # the server is put on the blackout list; it still has its presence
        # and its instances (the running master would keep them there)
        b.seed('/blackedout.servers/s0', None)
    if bt == 'presence_restarted0':
        b.unseed('/server.presence/s0')
        b.seed('/server.presence/s0', {})        # newer than any placement
        changed.add('s0')
    elif bt == 'presence_gone0':
        b.unseed('/server.presence/s0')
        changed.add('s0')
    elif bt == 'record_shrunk0':
        data = dict(b.get('/servers/s0'))
        nc = S.int('shrunk_cap0', 0, g2.VMAX)
        S.require(S.z(nc) < S.z(data['memory']))
        data['memory'] = nc
        b.nodes['/servers/s0'][0] = data
        changed.add('s0')
    g2.VT.now += 30
    m2 = g2.new_master(W)
    m2.load_model()              # before any cycle
    S.reach('reloaded')
    for (srv, name), data in published.items():
        app = m2.cell.apps.get(name)
        if app is None:
            continue          # schedule-once instance terminated etc.
        healthy = srv not in changed and b.exists('/server.presence/' + srv)
        if healthy:
            S.reach('healthy_record')
            S.check('C11:recorded_instance_not_restored_to_its_server',
                    app.server == srv,
                    {'app': name, 'recorded': srv, 'model': app.server})
            S.check('C11:recorded_identity_not_restored',
                    app.identity == data.get('identity'),
                    {'app': name, 'recorded': data.get('identity'),
                     'model': app.identity})
            S.check('C11:recorded_expiry_not_restored',
                    S.z(app.placement_expiry) == S.z(data.get('expires')),
                    {'app': name})
    for name, app in m2.cell.apps.items():
        if app.server is not None:
            S.check('C11:unrecorded_instance_is_placed',
                    (app.server, name) in published,
                    {'app': name, 'server': app.server})
    for g, grp in m2.cell.identity_groups.items():
        held = {a.identity for a in m2.cell.apps.values()
                if a.identity_group == g and a.identity is not None}
        S.check('C11:restored_identity_still_available',
                not (held & set(grp.available)),
                {'group': g, 'held': sorted(held),
                 'available': sorted(grp.available)})
    # C01 on the reloaded model: declared capacity respected
    for sname, srv in m2.servers.items():
        tot = z3.IntVal(0)
        for an in srv.apps:
            tot = tot + S.z(W.demand[an])
        S.check('C11:reloaded_server_oversubscribed',
                tot <= S.z(b.get('/servers/' + sname)['memory']),
                {'server': sname})


META = {
    'functions_encoded': [
        'Loader.load_model', 'Loader.restore_placements',
        'Loader.restore_placement', 'Loader.load_servers',
        'Loader.adjust_server_state', 'Loader.load_identity_groups',
        'Loader.load_apps', 'Server.restore', 'Server.put',
        'Application.force_set_identity', 'Master.init_schedule',
        'Master.reschedule'],
    'reach_required': ['published', 'reloaded', 'healthy_record'],
}


def weight(name, spec):
    return 3 if 'frozen' in name or 'schedule' in name else 1
