"""C12 - the node's manifest cache mirrors what is placed on the node."""
import errno
import json
import os

import repo  # noqa: F401
import fsx
import memzk

PROPERTY = 'C12'
HOST = 'host1'
APPS = ['proid.a#0000000001', 'proid.b#0000000002']
EXTRA = 'proid.x#0000000009'


class Crash(BaseException):
    pass


def subharnesses(tier):
    subs = []
    for exp0 in (False, True):
        for pl0 in (False, True):
            for man0 in (False, True):
                for cache0 in ('absent', 'old'):
                    for fault in ('none', 'oserror', 'crash') + (
                            ('vanish',) if cache0 == 'old' and not exp0
                            else ()):
                        subs.append(('a-%s%s%s-%s-%s' % (
                            'E' if exp0 else 'e', 'P' if pl0 else 'p',
                            'M' if man0 else 'm', cache0, fault),
                            {'a': [exp0, pl0, man0, cache0],
                             'fault': fault}))
    # the service loop itself (EventMgr.run): presence and placement watches
    # fire in any order; whenever the cache is published as ready it mirrors
    # the placement
    for first in ('pd', 'pl1', 'pc'):
        subs.append(('run-loop-%s' % first, {'kind': 'run', 'first': first}))
    if tier == 'thorough':
        # six events per run instead of four
        for first in ('pd', 'pl1', 'pl2'):
            subs.append(('run-loop6-%s' % first,
                         {'kind': 'run', 'first': first, 'nev': 6}))
        # the vanishing file for every configuration of the first instance
        for exp0 in (False, True):
            for pl0 in (False, True):
                for man0 in (False, True):
                    if not (not exp0):
                        subs.append(('a-%s%s%s-old-vanish2' % (
                            'E' if exp0 else 'e', 'P' if pl0 else 'p',
                            'M' if man0 else 'm'),
                            {'a': [exp0, pl0, man0, 'old'],
                             'fault': 'vanish'}))
    return subs


def budget(tier, name):
    return 300.0 if tier == 'quick' else 1200.0


class _StatShim:
    def __init__(self, real, ctimes):
        self._real = real
        self._ctimes = ctimes

    def __getattr__(self, k):
        return getattr(self._real, k)

    on_unlink = None

    def unlink(self, path, *a, **kw):
        if self.on_unlink is not None:
            self.on_unlink(path)
        return self._real.unlink(path, *a, **kw)

    def stat(self, path, *a, **kw):
        st = self._real.stat(path, *a, **kw)
        name = os.path.basename(path)
        if name in self._ctimes:
            ct = self._ctimes[name]

            class _St:
                st_ctime = ct
                st_mode = st.st_mode
                st_ino = st.st_ino
                st_size = st.st_size
            return _St()
        return st


def _expected_content(tree, app):
    import yaml
    man = json.loads(tree.nodes['/scheduled/' + app].data.decode())
    man['task'] = app[app.index('#') + 1:]
    pdata = tree.nodes['/placement/%s/%s' % (HOST, app)].data
    if pdata:
        man.update(json.loads(pdata.decode()))
    return man


def _read(path):
    import yaml
    with open(path) as f:
        txt = f.read()
    return txt, (yaml.safe_load(txt) if txt else None)


class _StopLoop(Exception):
    pass


RUN_APPS = ['proid.a#0000000001', 'proid.b#0000000002', 'proid.c#0000000003']
PLACEMENTS = {'pl0': RUN_APPS[:2], 'pl1': RUN_APPS[1:], 'pl2': []}


def _run_loop(S, spec):
    """EventMgr.run with captured watch callbacks; four events chosen by the
    solver (the first one fixed per sub-harness) are delivered from
    time.sleep."""
    import logging
    logging.disable(logging.CRITICAL)
    from treadmill import eventmgr
    d = fsx.fresh()
    cache = os.path.join(d, 'cache')
    os.makedirs(cache)
    tree = memzk.Tree()
    zk = memzk.Client(tree, 1)
    tree.seed('/placement/' + HOST)
    tree.seed('/server.presence/' + HOST, b'{}')
    for i, app in enumerate(RUN_APPS):
        tree.seed('/scheduled/' + app, json.dumps(
            {'memory': '1G', 'services': [{'name': 'w%d' % i}]}).encode())
    placed = list(PLACEMENTS['pl0'])
    for app in placed:
        tree.seed('/placement/%s/%s' % (HOST, app),
                  json.dumps({'identity': None, 'expires': 1}).encode())
    watches = {}

    def data_watch(path):
        def deco(fn):
            watches['presence'] = fn
            node = tree.nodes.get(path)
            fn(node.data if node else None, object() if node else None, None)
            return fn
        return deco

    def children_watch(path, fn):
        watches['placement'] = fn
        fn(sorted(placed))
    zk.DataWatch = data_watch
    zk.ChildrenWatch = children_watch
    zk.add_listener = lambda f: None

    class _Lease:
        def heartbeat(self):
            pass

        def remove(self):
            pass

    class _Env:
        cache_dir = cache

        class watchdogs:
            @staticmethod
            def create(**kw):
                return _Lease()
    mgr = eventmgr.EventMgr.__new__(eventmgr.EventMgr)
    mgr.tm_env = _Env()
    mgr._hostname = HOST

    class _Ctx:
        class GLOBAL:
            class zk_:
                conn = zk
    _Ctx.GLOBAL.zk = _Ctx.GLOBAL.zk_
    eventmgr.context = _Ctx
    eventmgr.utils = type('U', (), {'exit_on_unhandled':
                                    staticmethod(lambda f: f)})
    state = {'presence': True, 'step': 0}
    kinds = ['pd', 'pc', 'pl0', 'pl1', 'pl2']

    def check(tag):
        names = sorted(n for n in os.listdir(cache) if not n.startswith('.'))
        ready = os.path.exists(os.path.join(cache, '.ready'))
        if ready:
            S.reach('ready_published')
            S.check('C12:cache_names_instance_not_placed_here' + tag,
                    set(names) <= set(placed),
                    {'cache': names, 'placed': sorted(placed)})
            S.check('C12:placed_instance_without_cache_file' + tag,
                    set(placed) <= set(names),
                    {'cache': names, 'placed': sorted(placed)})
            if not state['presence']:
                # not part of the property: counted only
                S.reach('ready_published_without_presence')

    def deliver(kind):
        ev = lambda t: type('E', (), {'type': t})()
        if kind == 'pd':
            S.assume(state['presence'])
            tree.nodes.pop('/server.presence/' + HOST, None)
            state['presence'] = False
            watches['presence'](None, None, ev('DELETED'))
        elif kind == 'pc':
            S.assume(not state['presence'])
            tree.seed('/server.presence/' + HOST, b'{}')
            state['presence'] = True
            watches['presence'](b'{}', object(), ev('CREATED'))
        else:
            new = PLACEMENTS[kind]
            S.assume(sorted(new) != sorted(placed))
            for app in list(placed):
                if app not in new:
                    tree.nodes.pop('/placement/%s/%s' % (HOST, app), None)
            for app in new:
                if app not in placed:
                    tree.seed('/placement/%s/%s' % (HOST, app), json.dumps(
                        {'identity': None, 'expires': 2}).encode())
            placed[:] = list(new)
            watches['placement'](sorted(placed))
            S.reach('placement_changed_in_loop')

    class _Time:
        @staticmethod
        def time():
            return 1000.0

        @staticmethod
        def sleep(_n):
            k = state['step']
            state['step'] = k + 1
            check(':loop%d' % k)
            if k >= spec.get('nev', 4):
                raise _StopLoop()
            kind = spec['first'] if k == 0 else \
                kinds[S.choice('event_%d' % k, len(kinds))]
            deliver(kind)
            check(':after_event%d' % k)
    eventmgr.time = _Time
    try:
        mgr.run(once=False)
    except _StopLoop:
        pass
    finally:
        import time as _t
        import treadmill.utils as _u
        eventmgr.time = _t
        eventmgr.utils = _u
    S.reach('synchronized')
    S.reach('service_loop_ran')


def harness(S, spec):
    if spec.get('kind') == 'run':
        return _run_loop(S, spec)
    import logging
    logging.disable(logging.CRITICAL)
    from treadmill import eventmgr, fs
    import tempfile as _tempfile
    d = fsx.fresh()
    cache = os.path.join(d, 'cache')
    os.makedirs(cache)
    tree = memzk.Tree()
    zk = memzk.Client(tree, 1)
    tree.seed('/placement/' + HOST)
    tree.seed('/scheduled')
    cfg = {APPS[0]: list(spec['a'])}
    cfg[APPS[1]] = [S.flag('b_expected'), S.flag('b_placement'),
                    S.flag('b_manifest'),
                    ('absent', 'old')[S.choice('b_cache', 2)]]
    ctimes = {}
    pl_ctime = {}
    before = {}
    for i, app in enumerate(APPS):
        exp, pl, man, cst = cfg[app]
        if pl:
            ct = S.int('placement_ctime_%d' % i, 1, 10 ** 6)
            pl_ctime[app] = ct
            tree.seed('/placement/%s/%s' % (HOST, app),
                      json.dumps({'identity': i, 'expires': 1000 + i,
                                  'identity_count': 2}).encode(), ctime=ct)
        if man:
            tree.seed('/scheduled/' + app,
                      json.dumps({'memory': '1G', 'cpu': '10%',
                                  'services': [{'name': 'web%d' % i}],
                                  'identity': None}).encode())
        if cst == 'old':
            with open(os.path.join(cache, app), 'w') as f:
                f.write('stale: true\n')
            ctimes[app] = S.int('cache_ctime_%d' % i, 1, 10 ** 6)
        before[app] = 'stale: true\n' if cst == 'old' else None
    with open(os.path.join(cache, EXTRA), 'w') as f:
        f.write('extra: 1\n')
    with open(os.path.join(cache, '.ready'), 'w') as f:
        pass
    expected = [a for a in APPS if cfg[a][0]]
    check_existing = S.flag('check_existing')
    mgr = eventmgr.EventMgr.__new__(eventmgr.EventMgr)

    class _Env:
        cache_dir = cache
    mgr.tm_env = _Env()
    mgr._hostname = HOST
    eventmgr.os = _StatShim(os, ctimes)
    if spec['fault'] == 'vanish':
        # a concurrent actor (appcfgmgr dropping an entry it could not
        # configure) removes a cache file between the listing and the unlink
        # of the synchronisation: the j-th unlink finds its file gone
        j = S.choice('vanishing_unlink', 3)
        nun = [0]

        def on_unlink(path):
            if nun[0] == j and os.path.exists(path):
                os.unlink(path)
                S.reach('file_vanished_before_unlink')
            nun[0] += 1
        eventmgr.os.on_unlink = on_unlink
    # ---- fault / observation points inside fs.write_safe
    fault = spec['fault']
    k = S.int('fault_at_call', 0, 12) if fault in ('oserror', 'crash') \
        else None
    calls = [0]
    visible = []         # (name, text) observed at the instant of the rename

    def _point(what):
        if k is not None and calls[0] == k:
            calls[0] += 1
            S.note = what
            if fault == 'crash':
                raise Crash(what)
            raise OSError(errno.ENOSPC, 'No space left on device', what)
        calls[0] += 1

    real_ntf = _tempfile.NamedTemporaryFile
    real_replace = os.replace
    real_fchmod = os.fchmod

    class _Tmp:
        NamedTemporaryFile = staticmethod(
            lambda *a, **kw: (_point('mktemp'), real_ntf(*a, **kw))[1])

        def __getattr__(self, n):
            return getattr(_tempfile, n)

    class _Os:
        def __getattr__(self, n):
            return getattr(os, n)

        @staticmethod
        def fchmod(fd, mode):
            _point('fchmod')
            return real_fchmod(fd, mode)

        @staticmethod
        def replace(src, dst):
            _point('rename')
            rc = real_replace(src, dst)
            with open(dst) as f:
                visible.append((os.path.basename(dst), f.read()))
            return rc

    fs.tempfile = _Tmp()
    fs.os = _Os()
    orig_dump = eventmgr.yaml.dump

    def dump(data, stream=None, **kw):
        _point('dump')
        return orig_dump(data, stream=stream, **kw)

    eventmgr.yaml.dump = dump
    outcome = 'ok'
    try:
        try:
            mgr._synchronize(zk, expected, check_existing=check_existing)
        except Crash:
            outcome = 'crash'
        except OSError as e:
            outcome = 'oserror'
            S.check('C12:unexpected_oserror', fault == 'oserror' or
                    (fault == 'vanish' and
                     isinstance(e, FileNotFoundError)),
                    {'error': repr(e)})
    finally:
        eventmgr.yaml.dump = orig_dump
        fs.tempfile = _tempfile
        fs.os = os
        eventmgr.os = os
    if fault in ('oserror', 'crash'):
        S.assume(outcome != 'ok')       # k beyond the number of calls
        S.reach('fault_injected')
    import yaml
    names = sorted(os.listdir(cache))
    nondot = [n for n in names if not n.startswith('.')]
    # a reader at the instant a name becomes visible sees a complete manifest
    for name, txt in visible:
        S.reach('rename_observed')
        S.check('C12:partial_manifest_visible_under_instance_name',
                yaml.safe_load(txt) == _expected_content(tree, name),
                {'app': name, 'seen': txt[:200]})
    for app in APPS:
        p = os.path.join(cache, app)
        if os.path.exists(p):
            txt, doc = _read(p)
            exp, pl, man, cst = cfg[app]
            complete = (pl and man and doc == _expected_content(tree, app))
            S.check('C12:cache_file_neither_old_nor_complete',
                    txt == before[app] or complete,
                    {'app': app, 'content': txt[:200]})
    if outcome == 'oserror':
        S.check('C12:temp_file_left_after_failed_write',
                not [n for n in names if n.startswith('.proid')],
                {'names': names})
    if outcome == 'crash' and getattr(S, 'note', '') in ('fchmod', 'rename'):
        S.reach('crash_after_temp_exists')
    if outcome != 'ok':
        return
    S.reach('synchronized')
    S.check('C12:cache_names_instance_not_placed_here',
            set(nondot) <= set(expected), {'cache': nondot,
                                           'expected': expected})
    S.check('C12:dot_files_touched', '.ready' in names)
    for app in APPS:
        exp, pl, man, cst = cfg[app]
        p = os.path.join(cache, app)
        if not exp:
            continue
        if pl and man:
            S.check('C12:placed_instance_without_cache_file',
                    os.path.exists(p), {'app': app})
        if not os.path.exists(p):
            continue
        txt, doc = _read(p)
        if txt != before[app]:
            S.reach('written')
            S.check('C12:written_file_differs_from_manifest_plus_placement',
                    pl and man and doc == _expected_content(tree, app),
                    {'app': app})
        elif cst == 'old' and check_existing and pl and man:
            # left alone only if it is at least as new as the placement
            S.reach('kept_existing')
            S.check('C12:outdated_cache_file_not_refreshed',
                    S.z(ctimes[app]) >= S.z(pl_ctime[app]), {'app': app})
        if cst == 'old' and check_existing and pl and man and \
                txt != before[app]:
            S.check('C12:up_to_date_cache_file_rewritten',
                    S.z(ctimes[app]) < S.z(pl_ctime[app]), {'app': app})


TWINS = ['a-EPM-absent-none']

META = {
    'functions_encoded': [
        'eventmgr.EventMgr.run (presence / placement watches, '
        '_cache_notify)', 'eventmgr.EventMgr._synchronize', 'EventMgr._cache',
        'fs.write_safe', 'fs.replace', 'fs.rm_safe',
        'zkutils.get', 'zkutils.get_with_metadata'],
    'reach_required': ['synchronized', 'written', 'kept_existing',
                       'fault_injected', 'rename_observed',
                       'crash_after_temp_exists', 'service_loop_ran',
                       'ready_published', 'placement_changed_in_loop'],
}
