"""C13 - a container is running or in cleanup, never both, and follows the cache."""
import os

import repo  # noqa: F401
import fsx

PROPERTY = 'C13'
INST = 'proid.app#0000000001'
GENS = {'g1': (1000.0, 11), 'g2': (2000.0, 12)}     # (st_ctime, st_ino)

STEPS = ['created', 'deleted', 'ready_created', 'ready_deleted', 'restart',
         'finishes', 'cleanup_done', 'recreated', 'finishes_then_restart',
         'recreated_events_late', 'deleted_racing_monitor']


def subharnesses(tier):
    subs = []
    for cache in ('none', 'g1', 'g2'):
        for running in ('none', 'c1', 'c2'):
            for step in STEPS:
                for active in (True, False):
                    if step == 'restart' and active:
                        continue
                    subs.append(('cache_%s-run_%s-%s-%s' % (
                        cache, running, step,
                        'active' if active else 'idle'),
                        {'cache': cache, 'running': running, 'step': step,
                         'active': active}))
    return subs


def budget(tier, name):
    return 300.0 if tier == 'quick' else 1200.0


class _OsShim:
    """os for treadmill.appcfg: stat() of a cache entry reports the ctime /
    inode of the entry's current generation."""
    gen = None

    def __getattr__(self, n):
        return getattr(os, n)

    def stat(self, path, *a, **kw):
        st = os.stat(path, *a, **kw)
        if os.path.basename(path) == INST and self.gen is not None:
            ct, ino = GENS[self.gen]

            class _St:
                st_ctime = ct
                st_ino = ino
                st_mode = st.st_mode
            return _St()
        return st


def _links(d):
    out = {}
    for n in sorted(os.listdir(d)):
        p = os.path.join(d, n)
        if n.startswith('.'):
            continue
        if os.path.islink(p):
            out[n] = os.path.basename(os.readlink(p))
    return out


def harness(S, spec):
    import logging
    logging.disable(logging.CRITICAL)
    from treadmill import appcfg, appcfgmgr, fs
    root = fsx.fresh()
    dirs = {}
    for n in ('cache', 'apps', 'running', 'cleanup'):
        dirs[n] = os.path.join(root, n)
        os.makedirs(dirs[n])

    class _Env:
        cache_dir = dirs['cache']
        apps_dir = dirs['apps']
        running_dir = dirs['running']
        cleanup_dir = dirs['cleanup']
    shim = _OsShim()
    appcfg.os = shim
    cache_file = os.path.join(dirs['cache'], INST)
    # container names of both generations, from the real naming function
    open(cache_file, 'w').close()
    cname = {}
    for g in ('g1', 'g2'):
        shim.gen = g
        cname[g] = appcfg.eventfile_unique_name(cache_file)
    os.unlink(cache_file)
    S.check('C13:two_generations_share_a_container_name',
            cname['g1'] != cname['g2'])
    gen_of = {cname['g1']: 'g1', cname['g2']: 'g2'}
    # ---- symbolic pre-state
    cache = spec['cache']
    shim.gen = None
    if cache != 'none':
        open(cache_file, 'w').close()
        shim.gen = cache
    present = {}
    marker = {}
    for g in ('g1', 'g2'):
        present[g] = S.flag('container_%s_present' % g)
        marker[g] = None
        if present[g]:
            os.makedirs(os.path.join(dirs['apps'], cname[g], 'data'))
            if S.flag('container_%s_finished' % g):
                marker[g] = ('exitinfo', 'aborted', 'oom')[
                    S.choice('marker_%s' % g, 3)]
                open(os.path.join(dirs['apps'], cname[g], 'data',
                                  marker[g]), 'w').close()
    run = spec['running']
    if run != 'none':
        g = 'g' + run[1]
        S.assume(present[g])
        os.symlink(os.path.join(dirs['apps'], cname[g]),
                   os.path.join(dirs['running'], INST))
    # cleanup links under either naming convention
    refs = {g: (1 if run == 'c' + g[1] else 0) for g in ('g1', 'g2')}
    ci = S.choice('cleanup_by_instance_name', 3)     # none / ->c1 / ->c2
    if ci:
        g = 'g%d' % ci
        S.assume(present[g])
        os.symlink(os.path.join(dirs['apps'], cname[g]),
                   os.path.join(dirs['cleanup'], INST))
        refs[g] += 1
    for g in ('g1', 'g2'):
        if S.flag('cleanup_by_container_name_%s' % g):
            S.assume(present[g])
            os.symlink(os.path.join(dirs['apps'], cname[g]),
                       os.path.join(dirs['cleanup'], cname[g]))
            refs[g] += 1
    # pre-state invariant: every container is the target of at most one link
    S.assume(all(v <= 1 for v in refs.values()))
    # reachability of the pre-state (strengthened invariant):
    #  - a cleanup link named after the *container* is made by _terminate,
    #    which runs when that generation's cache entry is gone or replaced, or
    #    by _synchronize for a finished container;
    #  - a cleanup link named after the *instance* is made by the monitor
    #    (container finished on its own) or by _synchronize for a container
    #    that is finished or has no cache entry;
    #  - while the manager is active the running link follows the cache.
    for g in ('g1', 'g2'):
        if os.path.lexists(os.path.join(dirs['cleanup'], cname[g])):
            # (_synchronize also uses this name for a finished container of
            # the cached generation when cleanup/<instance> is taken)
            S.assume(cache != g or marker[g] is not None)
    if ci:
        g = 'g%d' % ci
        S.assume(marker[g] is not None or cache != g)
    if spec['active'] and run != 'none':
        S.assume(cache == 'g' + run[1] or spec['step'] in ('deleted',))
    #  - a "created" event is the first sighting of that generation of the
    #    cache entry: no container of it can exist yet; the generation made by
    #    "recreated" does not exist beforehand either.
    if spec['step'] == 'created' and cache != 'none':
        S.assume(not present[cache])
    if spec['step'] in ('recreated', 'recreated_events_late'):
        S.assume(not present['g2'])
    S.notes['cname'] = dict(cname)
    S.notes['pre'] = {'cache': cache, 'running': run,
                      'present': dict(present), 'marker': dict(marker)}
    # a running link never points at a finished container in the pre-state
    # only if the container finished on its own a moment ago - allowed.
    configure_ok = S.flag('configure_succeeds')
    configured = []

    def configure(tm_env, event_file, runtime, runtime_param=None):
        if not configure_ok:
            return None
        name = appcfg.eventfile_unique_name(event_file)
        d = os.path.join(tm_env.apps_dir, name)
        os.makedirs(os.path.join(d, 'data'), exist_ok=True)
        configured.append(name)
        return d

    appcfgmgr.app_cfg.configure = configure
    appcfgmgr.supervisor.control_svscan = lambda *a, **k: None
    appcfgmgr.app_abort.report_aborted = lambda *a, **k: None
    mgr = appcfgmgr.AppCfgMgr.__new__(appcfgmgr.AppCfgMgr)
    mgr.tm_env = _Env()
    mgr._is_active = spec['active']
    mgr._runtime = 'linux'
    mgr._runtime_param = None
    before_run = _links(dirs['running'])
    ready = os.path.join(dirs['cache'], '.ready')
    step = spec['step']
    synced = False
    try:
        if step == 'created':
            S.assume(cache != 'none')
            mgr._on_created(cache_file)
        elif step == 'deleted':
            S.assume(cache != 'none')
            os.unlink(cache_file)
            shim.gen = None
            cache = 'none'
            mgr._on_deleted(cache_file)
        elif step == 'recreated':
            # evicted and placed again on this node: new generation
            S.assume(cache == 'g1')
            os.unlink(cache_file)
            shim.gen = None
            mgr._on_deleted(cache_file)
            open(cache_file, 'w').close()
            shim.gen = 'g2'
            cache = 'g2'
            mgr._on_created(cache_file)
        elif step == 'deleted_racing_monitor':
            # the cache entry is deleted while the container exits on its own:
            # the monitor moves the running link between _terminate reading
            # it and renaming it
            from treadmill import monitor
            S.assume(cache != 'none' and run != 'none')
            g = 'g' + run[1]
            S.assume(not os.path.lexists(os.path.join(dirs['cleanup'], INST)))
            S.assume(not os.path.lexists(os.path.join(dirs['cleanup'],
                                                      cname[g])))
            os.unlink(cache_file)
            shim.gen = None
            cache = 'none'

            class _Svc:
                data_dir = os.path.join(dirs['apps'], cname[g], 'data')
            monitor.supervisor.open_service = lambda *a, **k: _Svc()
            monitor.supervisor.control_svscan = lambda *a, **k: None
            real_fs = appcfgmgr.fs
            fired = [False]

            class _Fs:
                def __getattr__(self, n):
                    return getattr(real_fs, n)

                @staticmethod
                def replace(a, b):
                    if not fired[0]:
                        fired[0] = True
                        act = monitor.MonitorContainerCleanup(mgr.tm_env, {})
                        act.execute({'id': INST, 'signal': 0,
                                     'return_code': 0})
                        S.reach('monitor_raced_with_terminate')
                    return real_fs.replace(a, b)
            appcfgmgr.fs = _Fs()
            try:
                mgr._on_deleted(cache_file)
            finally:
                appcfgmgr.fs = real_fs
        elif step == 'recreated_events_late':
            # evicted and placed again on this node while the manager was busy:
            # both inotify events are handled after the new file exists
            S.assume(cache == 'g1')
            os.unlink(cache_file)
            open(cache_file, 'w').close()
            shim.gen = 'g2'
            cache = 'g2'
            mgr._on_deleted(cache_file)
            mgr._on_created(cache_file)
        elif step == 'ready_created':
            open(ready, 'w').close()
            synced = mgr._is_active is not True
            mgr._on_created(ready)
        elif step == 'ready_deleted':
            mgr._on_deleted(ready)
        elif step == 'restart':
            mgr._is_active = False
            open(ready, 'w').close()
            mgr._on_modified(ready)
            synced = True
        elif step in ('finishes', 'finishes_then_restart'):
            # the container finished on its own: the real monitor action
            # hands it to cleanup
            from treadmill import monitor
            S.assume(run != 'none')
            g = 'g' + run[1]
            with_marker = S.flag('exitinfo_written')
            if with_marker:
                open(os.path.join(dirs['apps'], cname[g], 'data', 'exitinfo'),
                     'w').close()
                marker[g] = 'exitinfo'
            S.assume(not os.path.lexists(os.path.join(dirs['cleanup'], INST)))
            S.assume(not os.path.lexists(os.path.join(dirs['cleanup'],
                                                      cname[g])))

            class _Svc:
                data_dir = os.path.join(dirs['apps'], cname[g], 'data')
            monitor.supervisor.open_service = lambda *a, **k: _Svc()
            monitor.supervisor.control_svscan = lambda *a, **k: None
            act = monitor.MonitorContainerCleanup(mgr.tm_env, {})
            act.execute({'id': INST, 'signal': 0, 'return_code': 0})
            finished_on_own = cname[g]
            if step == 'finishes_then_restart':
                # the manager is restarted before cleanup got to it
                mgr._is_active = False
                open(ready, 'w').close()
                mgr._on_modified(ready)
                synced = True
                S.reach('resync_while_cleanup_pending')
                running_now = _links(dirs['running'])
                S.check('C13:container_that_finished_on_its_own_restarted',
                        running_now.get(INST) != finished_on_own,
                        {'running': running_now})
        elif step == 'cleanup_done':
            links = _links(dirs['cleanup'])
            S.assume(bool(links))
            n = sorted(links)[0]
            import shutil
            shutil.rmtree(os.path.join(dirs['apps'], links[n]), True)
            os.unlink(os.path.join(dirs['cleanup'], n))
    finally:
        appcfg.os = os
    S.reach('stepped')
    running = _links(dirs['running'])
    cleanup = _links(dirs['cleanup'])
    apps = sorted(os.listdir(dirs['apps']))
    S.trace[:] = [('links', running, cleanup)]
    # Is the post-state again inside the pre-state invariant this harness
    # assumes?  (Diagnostic for the inductive argument, counted in the
    # evidence; not an assertion of the property: a post-state outside the
    # invariant means the harness should widen its pre-states.)
    closed = True
    for g in ('g1', 'g2'):
        has_marker = any(os.path.exists(os.path.join(
            dirs['apps'], cname[g], 'data', mk))
            for mk in ('exitinfo', 'aborted', 'oom'))
        if cname[g] in cleanup and cleanup[cname[g]] == cname[g]:
            closed = closed and (cache != g or has_marker)
        if cleanup.get(INST) == cname[g]:
            closed = closed and (has_marker or cache != g)
    if mgr._is_active and running.get(INST) is not None:
        closed = closed and running.get(INST) == cname.get(cache)
    S.reach('post_state_inside_invariant' if closed
            else 'post_state_outside_invariant')
    # (O1) one link per container
    for c in apps:
        n = sum(1 for t in running.values() if t == c) + \
            sum(1 for t in cleanup.values() if t == c)
        S.check('C13:container_referenced_by_more_than_one_link', n <= 1,
                {'container': c, 'running': running, 'cleanup': cleanup})
    for n, t in running.items():
        S.check('C13:running_link_to_missing_container', t in apps,
                {'link': n, 'target': t})
    if synced:
        S.reach('synchronized')
        cur = cname.get(cache)
        # (O3) containers whose cache entry is gone are handed to cleanup
        for c in apps:
            if c != cur:
                S.check('C13:container_without_cache_entry_not_in_cleanup',
                        c in cleanup.values(),
                        {'container': c, 'cleanup': cleanup,
                         'running': running})
        # (O2/O4) running links follow the cache
        if cur is None:
            S.check('C13:running_link_without_cache_entry', not running,
                    {'running': running})
        else:
            g = cache
            finished = marker.get(g) is not None and cur in apps
            in_cleanup = cur in cleanup.values()
            should_run = configure_ok and not finished and not in_cleanup
            if finished and before_run.get(INST) != cur:
                S.reach('finished_container')
                S.check('C13:finished_container_started_again',
                        running.get(INST) != cur, {'running': running})
            if finished and before_run.get(INST) == cur:
                should_run = running.get(INST) == cur   # left as it was
            if should_run:
                S.check('C13:cached_manifest_not_running_after_sync',
                        running.get(INST) == cur,
                        {'running': running, 'expected': cur,
                         'cleanup': cleanup})
            if running:
                S.check('C13:running_link_does_not_match_cache',
                        running == {INST: cur}, {'running': running,
                                                 'expected': cur})
    # (O6) after the delete + create events of a re-placed instance have been
    # handled by an active manager, the old generation is not running any more
    # and the new one is (if it can be configured)
    if step in ('recreated', 'recreated_events_late') and spec['active']:
        S.reach('recreated_handled')
        old_c, new_c = cname['g1'], cname['g2']
        S.check('C13:replaced_generation_still_running',
                running.get(INST) != old_c,
                {'running': running, 'cleanup': cleanup})
        if before_run.get(INST) == old_c:
            S.check('C13:container_without_cache_entry_not_in_cleanup',
                    old_c in cleanup.values() or old_c not in apps,
                    {'container': old_c, 'cleanup': cleanup,
                     'running': running})
        if configure_ok:
            S.check('C13:cached_manifest_not_running_after_events',
                    running.get(INST) == new_c,
                    {'running': running, 'expected': new_c})
    # (O5) an unchanged running container is left running
    if before_run.get(INST) == cname.get(spec['cache']) and \
            before_run.get(INST) is not None and \
            step in ('ready_created', 'restart', 'created', 'ready_deleted') \
            and marker.get(spec['cache']) is None:
        S.reach('unchanged_running')
        S.check('C13:unchanged_running_container_disturbed',
                running.get(INST) == before_run.get(INST),
                {'before': before_run, 'after': running})


# The four defects of _synchronize that used to be listed known findings (two
# generations of one instance) were repaired in /repo (d1bb430); nothing is
# masked any more.
KNOWN = []

TWINS = ['cache_g1-run_none-created-active']

META = {
    'functions_encoded': [
        'AppCfgMgr._on_created / _on_deleted / _on_modified / _first_sync / '
        '_synchronize / _configure / _terminate / _resolve_running_link',
        'appcfg.eventfile_unique_name / gen_uniqueid / app_name',
        'fs.symlink_safe / fs.replace'],
    'reach_required': ['stepped', 'synchronized', 'finished_container',
                       'unchanged_running', 'recreated_handled'],
}
