"""C14 - node VIPs, firewall rules and endpoint specs have exactly one owner."""
import errno
import os

import repo  # noqa: F401
import fsx

PROPERTY = 'C14'
OWNERS = ['o1', 'o2']          # live owners
DEAD = 'gone'                  # an owner whose path does not exist
STATES = [None, 'o1', 'o2', DEAD]


def subharnesses(tier):
    subs = []
    cidrs = ['10.0.0.0/30'] if tier == 'quick' else ['10.0.0.0/30',
                                                     '10.0.0.8/29']
    for cidr in cidrs:
        for op in ('alloc', 'alloc_picked', 'free', 'gc', 'alloc_twice'):
            subs.append(('vip-%s-%s' % (cidr.replace('/', '_'), op),
                         {'mgr': 'vip', 'cidr': cidr, 'op': op}))
    for op in ('create', 'unlink', 'gc', 'create_twice'):
        subs.append(('rule-%s' % op, {'mgr': 'rule', 'op': op}))
    for op in ('create', 'unlink', 'unlink_all', 'gc'):
        subs.append(('spec-%s' % op, {'mgr': 'spec', 'op': op}))
    for op in ('create_known', 'create_new', 'delete', 'synchronize',
               'create_twice'):
        subs.append(('netsvc-%s' % op, {'mgr': 'netsvc', 'op': op}))
    # the treadmill root is reached through a symbolic link whose target lies
    # deeper than the link (/treadmill -> /vol/data/local/treadmill): what a
    # live owner created must survive garbage collection there too
    # a container starts (owner directory + rule) while a collection pass is
    # under way, at any point between two file-system calls of the pass
    subs.append(('rule-gc_concurrent_create',
                 {'mgr': 'rule', 'op': 'gc_concurrent_create'}))
    for mgr in ('vip', 'rule', 'spec'):
        for op in ('gc', 'create_then_gc'):
            spec = {'mgr': mgr, 'op': op, 'layout': 'symlinked'}
            if mgr == 'vip':
                spec['cidr'] = '10.0.0.0/30'
            subs.append(('%s-symlinked_root-%s' % (mgr, op), spec))
        subs.append(('%s-create_then_gc' % mgr,
                     dict({'mgr': mgr, 'op': 'create_then_gc'},
                          **({'cidr': '10.0.0.0/30'} if mgr == 'vip' else {}))))
    return subs


def budget(tier, name):
    return 300.0 if tier == 'quick' else 1200.0


def _setup(S, spec=None):
    d = fsx.fresh()
    if spec and spec.get('layout') == 'symlinked':
        real = os.path.join(d, 'vol', 'data', 'local', 'treadmill')
        os.makedirs(real)
        os.symlink(real, os.path.join(d, 'tm'))
        d = os.path.join(d, 'tm')          # every path goes through the link
    owners = os.path.join(d, 'owners')
    os.makedirs(owners)
    for o in OWNERS:
        os.makedirs(os.path.join(owners, o))
    return d, owners


def _populate(S, directory, owners_dir, names, tag, relative=True):
    """Symbolic link table: each name free / owned by o1 / o2 / a dead owner."""
    table = {}
    for i, n in enumerate(names):
        st = STATES[S.choice('%s_state_%d' % (tag, i), len(STATES))]
        table[n] = st
        if st is not None:
            target = os.path.join(owners_dir, st)
            if relative:
                target = os.path.relpath(target, directory)
            os.symlink(target, os.path.join(directory, n))
    return table


def _expect(S, label, directory, table):
    got = fsx.links(directory)
    want = {n: o for n, o in table.items() if o is not None}
    S.check(label, got == want, {'got': got, 'want': want})


# ------------------------------------------------------------------ VIPs

def _vip(S, spec):
    import ipaddress
    from treadmill import vipfile
    d, owners = _setup(S, spec)
    vips = os.path.join(d, 'vips')
    mgr = vipfile.VipMgr(spec['cidr'], vips, owners)
    net = ipaddress.IPv4Network(spec['cidr'])
    hosts = [str(h) for h in net.hosts()]
    if len(hosts) > 2:
        # larger network: the tail of the host range is fixed as taken, the
        # head is symbolic
        fixed = hosts[3:]
        hosts_sym = hosts[:3]
    else:
        fixed, hosts_sym = [], hosts
    table = _populate(S, vips, owners, hosts_sym, 'vip')
    for h in fixed:
        os.symlink(os.path.relpath(os.path.join(owners, 'o2'), vips),
                   os.path.join(vips, h))
        table[h] = 'o2'
    pre = dict(table)
    op = spec['op']
    owner = OWNERS[S.choice('caller', 2)]
    if op in ('alloc', 'alloc_twice'):
        rounds = 2 if op == 'alloc_twice' else 1
        for _r in range(rounds):
            try:
                ip = mgr.alloc(owner)
            except Exception as e:      # noqa
                S.reach('alloc_refused')
                S.check('C14:alloc_refused_although_a_host_ip_is_free',
                        all(table.get(h) is not None for h in hosts),
                        {'table': table})
                ip = None
            if ip is not None:
                S.reach('alloc_ok')
                S.check('C14:allocated_ip_outside_network',
                        ipaddress.IPv4Address(ip) in net, {'ip': ip})
                S.check('C14:allocated_ip_already_had_an_owner',
                        table.get(ip) is None,
                        {'ip': ip, 'owner': table.get(ip)})
                table[ip] = owner
            _expect(S, 'C14:vip_table_wrong_after_alloc', vips, table)
    elif op == 'alloc_picked':
        cands = hosts_sym + [str(net.network_address), '10.9.9.9']
        ip = cands[S.choice('picked', len(cands))]
        try:
            got = mgr.alloc(owner, picked_ip=ip)
            S.reach('alloc_ok')
            S.check('C14:allocated_ip_outside_network',
                    ipaddress.IPv4Address(got) in net, {'ip': got})
            S.check('C14:picked_ip_not_returned', got == ip)
            S.check('C14:allocated_ip_already_had_an_owner',
                    table.get(ip) is None, {'ip': ip})
            table[ip] = owner
        except Exception:  # noqa
            S.reach('alloc_refused')
            S.check('C14:free_picked_ip_refused',
                    table.get(ip) is not None or
                    ipaddress.IPv4Address(ip) not in net, {'ip': ip})
        _expect(S, 'C14:vip_table_wrong_after_alloc', vips, table)
    elif op == 'free':
        cands = hosts_sym + ['10.9.9.9']
        ip = cands[S.choice('freed', len(cands))]
        mgr.free(owner, ip)
        if table.get(ip) == owner:
            S.reach('freed_by_owner')
            table[ip] = None
        elif table.get(ip) is not None:
            S.reach('free_by_non_owner')
        _expect(S, 'C14:free_changed_something_the_caller_does_not_own',
                vips, table)
    elif op == 'create_then_gc':
        try:
            ip = mgr.alloc(owner)
        except Exception:       # noqa
            ip = None
        if ip is not None:
            S.reach('created_before_gc')
            table[ip] = owner
        mgr.garbage_collect()
        for n, o in list(table.items()):
            if o == DEAD:
                table[n] = None
        _expect(S, 'C14:gc_did_not_reclaim_exactly_the_orphans', vips, table)
    elif op == 'gc':
        mgr.garbage_collect()
        for n, o in list(table.items()):
            if o == DEAD:
                S.reach('reclaimed')
                table[n] = None
        _expect(S, 'C14:gc_did_not_reclaim_exactly_the_orphans', vips, table)
    # list() agrees with the directory
    S.check('C14:list_disagrees_with_directory',
            dict(mgr.list()) == {n: o for n, o in table.items()
                                 if o is not None})


# ------------------------------------------------------------------ rules

def _rules():
    from treadmill import firewall
    return [
        ('PREROUTING', firewall.DNATRule(proto='tcp', dst_ip='1.1.1.1',
                                         dst_port=80, new_ip='2.2.2.2',
                                         new_port=8080)),
        ('POSTROUTING', firewall.SNATRule(proto='udp', src_ip='2.2.2.2',
                                          src_port=53, new_ip='1.1.1.1',
                                          new_port=5353)),
        ('PREROUTING', firewall.PassThroughRule('4.4.4.4', '2.2.2.2')),
    ]


def _rule(S, spec):
    from treadmill import rulefile
    d, owners = _setup(S, spec)
    rdir = os.path.join(d, 'rules')
    os.makedirs(rdir)
    mgr = rulefile.RuleMgr(rdir, owners)
    rules = _rules()
    names = [mgr._filenameify(c, r) for c, r in rules]
    S.check('C14:distinct_rules_share_a_file_name', len(set(names)) == 3)
    table = _populate(S, rdir, owners, names, 'rule')
    op = spec['op']
    owner = OWNERS[S.choice('caller', 2)]
    k = S.choice('which_rule', 3)
    chain, rule = rules[k]
    if op in ('create', 'create_twice'):
        for _r in range(2 if op == 'create_twice' else 1):
            try:
                mgr.create_rule(chain, rule, owner)
                S.check('C14:create_rule_succeeded_on_rule_of_other_owner',
                        table[names[k]] in (None, owner),
                        {'owner_before': table[names[k]]})
                table[names[k]] = owner
                S.reach('created')
            except OSError as e:
                S.reach('create_refused')
                S.check('C14:create_rule_failure_is_not_eexist',
                        e.errno == errno.EEXIST)
                S.check('C14:create_rule_refused_for_owner_or_free_rule',
                        table[names[k]] not in (None, owner))
            _expect(S, 'C14:rule_table_wrong_after_create', rdir, table)
    elif op == 'unlink':
        mgr.unlink_rule(chain, rule, owner)
        if table[names[k]] == owner:
            S.reach('unlinked_by_owner')
            table[names[k]] = None
        elif table[names[k]] is not None:
            S.reach('unlink_by_non_owner')
        _expect(S, 'C14:unlink_rule_changed_something_not_owned', rdir, table)
    elif op == 'gc_concurrent_create':
        S.assume(table[names[k]] is None)        # the new container's rule
        at = S.choice('concurrent_create_before_fs_call', 8)
        ncalls = [0]
        busy = [False]

        def concurrent():
            busy[0] = True
            try:
                os.makedirs(os.path.join(owners, 'o3'))
                mgr.create_rule(chain, rule, 'o3')
                table[names[k]] = 'o3'
                S.reach('created_during_gc')
            finally:
                busy[0] = False

        class _Os:
            def __getattr__(self, n):
                real = getattr(os, n)
                if n not in ('listdir', 'stat', 'lstat', 'readlink',
                             'unlink', 'scandir') or busy[0]:
                    return real

                def wrapped(*a, **kw):
                    if not busy[0]:
                        if ncalls[0] == at:
                            ncalls[0] += 1
                            concurrent()
                        else:
                            ncalls[0] += 1
                    return real(*a, **kw)
                return wrapped
        rulefile.os = _Os()
        try:
            mgr.garbage_collect()
        finally:
            rulefile.os = os
        for n, o in list(table.items()):
            if o == DEAD:
                table[n] = None
        _expect(S, 'C14:rule_gc_did_not_reclaim_exactly_the_orphans', rdir,
                table)
    elif op == 'create_then_gc':
        try:
            mgr.create_rule(chain, rule, owner)
            table[names[k]] = owner
            S.reach('created_before_gc')
        except OSError:
            pass
        mgr.garbage_collect()
        for n, o in list(table.items()):
            if o == DEAD:
                table[n] = None
        _expect(S, 'C14:rule_gc_did_not_reclaim_exactly_the_orphans', rdir,
                table)
        # ... and the rule of a live owner is still refused to anybody else
        other = [o for o in OWNERS if o != table[names[k]]][0]
        if table[names[k]] in OWNERS:
            try:
                mgr.create_rule(chain, rule, other)
                S.fail('C14:create_rule_succeeded_on_rule_of_other_owner',
                       {'owner_before': table[names[k]], 'after': 'gc'})
            except OSError:
                pass
    elif op == 'gc':
        mgr.garbage_collect()
        for n, o in list(table.items()):
            if o == DEAD:
                S.reach('reclaimed')
                table[n] = None
        _expect(S, 'C14:rule_gc_did_not_reclaim_exactly_the_orphans', rdir,
                table)
    got = mgr.get_rules()
    S.check('C14:get_rules_disagrees_with_directory',
            len(got) == sum(1 for o in table.values() if o is not None))


# ------------------------------------------------------------------ specs

SPECS = [
    ('proid.app#0000000001', 'tcp', 'http', 8000, 10, 80),
    ('proid.app#0000000001', 'udp', 'dns', 8001, 10, 53),
    ('proid.app#0000000012', 'tcp', 'http', 8002, 11, 80),
]


def _spec(S, spec):
    from treadmill import endpoints
    d, owners = _setup(S, spec)
    edir = os.path.join(d, 'endpoints')
    os.makedirs(edir)
    mgr = endpoints.EndpointsMgr(edir)
    names = [endpoints._namify(*s) for s in SPECS]
    table = _populate(S, edir, owners, names, 'spec', relative=False)
    op = spec['op']
    who = S.choice('caller', 2)
    owner = os.path.join(owners, OWNERS[who])
    k = S.choice('which_spec', 3)
    sp = SPECS[k]
    if op == 'create':
        try:
            mgr.create_spec(*sp, owner=owner)
            S.check('C14:create_spec_succeeded_on_spec_of_other_owner',
                    table[names[k]] is None or
                    table[names[k]] == OWNERS[who] or
                    table[names[k]] == sp[0],
                    {'owner_before': table[names[k]]})
            if table[names[k]] is None:
                table[names[k]] = OWNERS[who]
            S.reach('created')
        except OSError as e:
            S.reach('create_refused')
            S.check('C14:create_spec_failure_is_not_eexist',
                    e.errno == errno.EEXIST)
            S.check('C14:create_spec_refused_for_free_spec',
                    table[names[k]] is not None)
        _expect(S, 'C14:spec_table_wrong_after_create', edir, table)
    elif op == 'unlink':
        mgr.unlink_spec(*sp, owner=owner)
        if table[names[k]] == OWNERS[who]:
            S.reach('unlinked_by_owner')
            table[names[k]] = None
        elif table[names[k]] is not None:
            S.reach('unlink_by_non_owner')
        _expect(S, 'C14:unlink_spec_changed_something_not_owned', edir, table)
    elif op == 'unlink_all':
        app = SPECS[2 * S.choice('which_app', 2)][0]
        mgr.unlink_all(app, owner=OWNERS[who])
        for n, s in zip(names, SPECS):
            if s[0] == app and table[n] == OWNERS[who]:
                S.reach('unlinked_by_owner')
                table[n] = None
        _expect(S, 'C14:unlink_all_removed_wrong_specs', edir, table)
    elif op == 'create_then_gc':
        try:
            mgr.create_spec(*sp, owner=owner)
            if table[names[k]] is None:
                table[names[k]] = OWNERS[who]
            S.reach('created_before_gc')
        except OSError:
            pass
        endpoints.garbage_collect(edir)
        for n, o in list(table.items()):
            if o == DEAD:
                table[n] = None
        _expect(S, 'C14:spec_gc_did_not_reclaim_exactly_the_orphans', edir,
                table)
    elif op == 'gc':
        endpoints.garbage_collect(edir)
        for n, o in list(table.items()):
            if o == DEAD:
                S.reach('reclaimed')
                table[n] = None
        _expect(S, 'C14:spec_gc_did_not_reclaim_exactly_the_orphans', edir,
                table)
    S.check('C14:get_specs_disagrees_with_directory',
            len(mgr.get_specs()) == sum(1 for o in table.values()
                                        if o is not None))


# ------------------------------------------------- network resource service

RSRC = ['proid.a-0000000001-aaaaaaaaaaaaa', 'proid.b-0000000002-bbbbbbbbbbbbb',
        'proid.c-0000000003-ccccccccccccc']


def _netsvc(S, spec):
    """NetworkResourceService.on_create_request / on_delete_request /
    synchronize over the real VipMgr: a request keeps its IP, stale requests
    lose theirs, nothing else changes."""
    from treadmill import vipfile
    from treadmill.services import network_service as ns
    d, _o = _setup(S)
    rsrc_dir = os.path.join(d, 'resources')
    vips = os.path.join(d, 'vips')
    os.makedirs(rsrc_dir)
    devices_up = set()

    class _NetDev:
        def __getattr__(self, name):
            def f(*a, **k):
                if name == 'link_add_veth':
                    devices_up.add(a[0])
                elif name == 'link_del_veth':
                    devices_up.discard(a[0])
                elif name == 'dev_state':
                    if a[0] not in devices_up:
                        raise OSError(errno.ENOENT, 'no device')
                    return 'up'
                elif name == 'dev_mtu':
                    return 1500
                return None
            return f
    ns.netdev = _NetDev()
    marks = set()
    ns._add_mark_rule = lambda ip, env: marks.add((ip, env))
    ns._delete_mark_rule = lambda ip, env: marks.discard((ip, env))
    ns.iptables.atomic_set = lambda *a, **k: None
    ns._device_info = lambda dev: {'device': dev, 'alias': None, 'mtu': 1500}
    svc = ns.NetworkResourceService.__new__(ns.NetworkResourceService)
    svc._vips = vipfile.VipMgr('10.0.0.0/29', vips, rsrc_dir)
    svc._devices = {}
    svc._bridge_mtu = 1500
    svc.ext_device, svc.ext_mtu, svc.ext_speed = 'eth0', 1500, 10000
    svc.ext_ip = '10.1.1.1'
    hosts = ['10.0.0.%d' % i for i in range(1, 7)]
    # symbolic pre-state: requests r0, r1 known to the service or not; a
    # vip of an owner whose request is gone (left from before a restart)
    table = {}
    nxt = 0
    for i in (0, 1):
        st = ('absent', 'fresh', 'stale')[S.choice('request%d' % i, 3)]
        if st == 'absent':
            continue
        open(os.path.join(rsrc_dir, RSRC[i]), 'w').close()
        ip = hosts[nxt]
        nxt += 1
        os.symlink(os.path.relpath(os.path.join(rsrc_dir, RSRC[i]), vips),
                   os.path.join(vips, ip))
        table[ip] = RSRC[i]
        dev = {'ip': ip, 'environment': 'dev', 'stale': st == 'stale'}
        if S.flag('request%d_has_device' % i):
            veth0, _v1 = ns._device_from_rsrc_id(RSRC[i])
            dev['device'] = veth0
            devices_up.add(veth0)
        svc._devices[RSRC[i]] = dev
    if S.flag('orphan_vip'):
        ip = hosts[nxt]
        nxt += 1
        os.symlink(os.path.relpath(os.path.join(rsrc_dir, 'gone'), vips),
                   os.path.join(vips, ip))
        table[ip] = 'gone'
    op = spec['op']
    data = {'environment': 'dev'}
    if op in ('create_known', 'create_twice'):
        i = S.choice('which', 2)
        S.assume(RSRC[i] in svc._devices)
        had = svc._devices[RSRC[i]]['ip']
        for _r in range(2 if op == 'create_twice' else 1):
            res = svc.on_create_request(RSRC[i], dict(data))
            S.reach('request_served')
            S.check('C14:repeated_request_got_another_ip', res['vip'] == had,
                    {'had': had, 'got': res['vip']})
    elif op == 'create_new':
        open(os.path.join(rsrc_dir, RSRC[2]), 'w').close()
        res = svc.on_create_request(RSRC[2], dict(data))
        S.reach('request_served')
        S.check('C14:new_request_got_an_ip_that_has_an_owner',
                res['vip'] not in table, {'ip': res['vip'], 'table': table})
        S.check('C14:allocated_ip_outside_network', res['vip'] in hosts)
        table[res['vip']] = RSRC[2]
    elif op == 'delete':
        i = S.choice('which', 3)
        svc.on_delete_request(RSRC[i])
        for ip, o in list(table.items()):
            if o == RSRC[i] and i < 2:
                S.reach('freed_by_owner')
                del table[ip]
        S.check('C14:deleted_request_still_known', RSRC[i] not in svc._devices)
    elif op == 'synchronize':
        stale = [r for r, dv in svc._devices.items() if dv.get('stale')]
        svc.synchronize()
        for ip, o in list(table.items()):
            if o in stale or o == 'gone':
                S.reach('reclaimed')
                del table[ip]
        S.check('C14:stale_request_survives_synchronize',
                not any(r in svc._devices for r in stale))
    _expect(S, 'C14:vip_table_wrong_after_network_service_call', vips, table)
    owners = [o for o in fsx.links(vips).values()]
    S.check('C14:ip_table_and_service_state_disagree',
            sorted(dv['ip'] for dv in svc._devices.values()) ==
            sorted(ip for ip, o in table.items() if o in svc._devices),
            {'devices': {k: v.get('ip') for k, v in svc._devices.items()},
             'table': table})


def harness(S, spec):
    import logging
    logging.disable(logging.CRITICAL)
    {'vip': _vip, 'rule': _rule, 'spec': _spec,
     'netsvc': _netsvc}[spec['mgr']](S, spec)
    S.reach('stepped')


TWINS = ['vip-10.0.0.0_30-alloc', 'rule-create', 'spec-unlink']

META = {
    'functions_encoded': [
        'vipfile.VipMgr.alloc / _alloc / free / garbage_collect / list',
        'rulefile.RuleMgr.create_rule / unlink_rule / garbage_collect / '
        'get_rules / _filenameify', 'endpoints.EndpointsMgr.create_spec / '
        'unlink_spec / unlink_all / get_specs', 'endpoints.garbage_collect'],
    'reach_required': ['stepped', 'alloc_ok', 'alloc_refused',
                       'freed_by_owner', 'free_by_non_owner', 'reclaimed',
                       'created', 'create_refused', 'unlinked_by_owner',
                       'unlink_by_non_owner', 'request_served',
                       'created_before_gc'],
}
