"""C15 - state kept in names and directory entries round-trips losslessly."""
import repo  # noqa: F401
import symx

PROPERTY = 'C15'
PER_PATH = 60.0

TRACE_CLASSES = ['scheduled', 'scheduled_none', 'pending', 'pending_delete',
                 'configured', 'deleted', 'finished', 'aborted', 'killed',
                 'service_running', 'service_exited', 'server_state',
                 'server_blackout', 'server_blackout_cleared']


def subharnesses(tier):
    subs = []
    n = 2 if tier == 'quick' else 3
    for c in TRACE_CLASSES:
        subs.append(('trace-' + c, {'kind': 'trace', 'cls': c, 'maxlen': n}))
    subs.append(('uniquename', {'kind': 'uniquename', 'maxlen': n}))
    subs.append(('uniquename-collision', {'kind': 'uniquename2',
                                          'maxlen': 2 if tier == 'quick'
                                          else 3}))
    try:
        import c15_smtq
        subs += c15_smtq.subharnesses(tier)
    except ImportError:
        pass
    try:
        import c15_ldap
        subs += c15_ldap.subharnesses(tier)
    except ImportError:
        pass
    import c15_zk
    subs += c15_zk.subharnesses(tier)
    return subs


def run_custom(name, params, tier):
    import c15_smtq
    return c15_smtq.run_custom(name, params, tier)


def budget(tier, name):
    return 300.0 if tier == 'quick' else 1200.0


RCS = [0, 1, -1, 255, 256, 11]
SIGS = [0, 9, 15, 64]


def _small(S, name, values):
    """Integers that end up inside formatted names are choices, not solver
    ints (a symbolic int inside str.format is enumerated value by value)."""
    return values[S.choice(name, len(values))]


def _word(S, name, alphabet, minlen, maxlen):
    """A concrete word over ``alphabet`` built from solver choices."""
    n = minlen + S.choice(name + '_len', maxlen - minlen + 1)
    return ''.join(alphabet[S.choice('%s_%d' % (name, i), len(alphabet))]
                   for i in range(n))


ALPHA = {
    # separators used by the encodings are part of every alphabet that may
    # legally contain them
    'where': 'a.-', 'why': 'a:.', 'uniqueid': 'aZ0', 'service': 'a.-',
    'state': 'ad',
}


def _field(S, name, maxlen, forbid=','):
    return _word(S, name, ALPHA[name], 0, maxlen)


def _trace(S, spec):
    from treadmill.trace.app import events as ae
    from treadmill.trace.server import events as se
    c = spec['cls']
    n = spec['maxlen']
    inst = 'proid.app#0000000001'
    kw = dict(timestamp=100, source='src', instanceid=inst, payload=None)
    skw = dict(timestamp=100, source='src', servername='host1', payload=None)
    fields = []
    if c == 'scheduled':
        e = ae.ScheduledTraceEvent(where=_field(S, 'where', n, ',:'),
                                   why=_field(S, 'why', n), **kw)
        fields = ['where', 'why']
    elif c == 'scheduled_none':
        # what Master.init_schedule posts
        e = ae.ScheduledTraceEvent(where=_field(S, 'where', n, ',:'),
                                   why=None, **kw)
        fields = ['where', 'why']
    elif c == 'pending':
        e = ae.PendingTraceEvent(why=_field(S, 'why', n), **kw)
        fields = ['why']
    elif c == 'pending_delete':
        e = ae.PendingDeleteTraceEvent(why=_field(S, 'why', n), **kw)
        fields = ['why']
    elif c == 'configured':
        e = ae.ConfiguredTraceEvent(uniqueid=_field(S, 'uniqueid', n), **kw)
        fields = ['uniqueid']
    elif c == 'deleted':
        e = ae.DeletedTraceEvent(**kw)
    elif c == 'finished':
        e = ae.FinishedTraceEvent(rc=_small(S, 'rc', RCS),
                                  signal=_small(S, 'signal', SIGS), **kw)
        fields = ['rc', 'signal']
    elif c == 'aborted':
        e = ae.AbortedTraceEvent(why=_field(S, 'why', n), **kw)
        fields = ['why']
    elif c == 'killed':
        e = ae.KilledTraceEvent(is_oom=S.flag('is_oom'), **kw)
        fields = ['is_oom']
    elif c == 'service_running':
        e = ae.ServiceRunningTraceEvent(
            uniqueid=_field(S, 'uniqueid', n, ',.'),
            service=_field(S, 'service', n), **kw)
        fields = ['uniqueid', 'service']
    elif c == 'service_exited':
        e = ae.ServiceExitedTraceEvent(
            uniqueid=_field(S, 'uniqueid', n, ',.'),
            service=_field(S, 'service', n),
            rc=_small(S, 'rc', RCS[:3]), signal=_small(S, 'signal', SIGS[:2]),
            **kw)
        fields = ['uniqueid', 'service', 'rc', 'signal']
    elif c == 'server_state':
        e = se.ServerStateTraceEvent(state=_field(S, 'state', n), **skw)
        fields = ['state']
    elif c == 'server_blackout':
        e = se.ServerBlackoutTraceEvent(**skw)
    else:
        e = se.ServerBlackoutClearedTraceEvent(**skw)
    data = e.to_data()
    base = se.ServerTraceEvent if c.startswith('server') else ae.AppTraceEvent
    key = 'servername' if c.startswith('server') else 'instanceid'
    e2 = base.from_data(timestamp=data[0], source=data[1],
                        **{key: data[2]}, event_type=data[3],
                        event_data=data[4], payload=data[5])
    S.reach('encoded')
    S.check('C15:trace_event_does_not_decode', e2 is not None,
            {'class': c})
    S.check('C15:trace_event_decodes_to_other_class', type(e2) is type(e))
    for f in fields:
        a, b = getattr(e, f), getattr(e2, f)
        S.check('C15:trace_event_field_changed_by_round_trip:' + f,
                (a is None and b is None) or
                (a is not None and b is not None and a == b),
                {'class': c, 'field': f})
    S.check('C15:trace_event_type_changed', e2.event_type == e.event_type)


def _uniquename(S, spec):
    from treadmill import appcfg
    n = spec['maxlen']
    proid = _word(S, 'proid', 'a_.', 1, 1)
    app = _word(S, 'app', 'ab-_.', 1, n)
    inst = _small(S, 'instance', [0, 1, 42, 9999999999])
    name = proid + '.' + app + '#' + '%010d' % inst
    uid = _word(S, 'uniqueid', '0zZ', 1, 1)
    if S.flag('full_width_id'):
        uid = uid.rjust(13, 'x')
    un = appcfg._fmt_unique_name(name, uid)
    S.reach('encoded')
    S.check('C15:unique_name_does_not_end_in_13_char_id',
            len(un) >= 14 and un[-14] == '-', {'unique_name': un})
    S.check('C15:instance_name_changed_by_round_trip',
            appcfg.app_name(un) == name, {'name': name, 'unique_name': un,
                                          'decoded': appcfg.app_name(un)})
    S.check('C15:unique_id_changed_by_round_trip',
            appcfg.app_unique_id(un) == uid.rjust(13, '0'),
            {'unique_name': un})
    return name, uid, un


def _uniquename2(S, spec):
    """distinct (instance name, id) pairs never share a unique name."""
    from treadmill import appcfg
    n = spec['maxlen']
    out = []
    for k in (1, 2):
        proid = _word(S, 'proid%d' % k, 'a.', 1, 1)
        app = _word(S, 'app%d' % k, 'a-', 1, n)
        inst = _small(S, 'instance%d' % k, [0, 1])
        uid = _word(S, 'uniqueid%d' % k, '0z', 1, 1).rjust(13, '0')
        out.append((proid + '.' + app + '#' + '%010d' % inst, uid))
    S.assume(out[0] != out[1])
    a = appcfg._fmt_unique_name(*out[0])
    b = appcfg._fmt_unique_name(*out[1])
    S.reach('encoded')
    S.check('C15:distinct_instances_share_a_unique_name', a != b,
            {'first': out[0], 'second': out[1], 'unique_name': a})


def harness(S, spec):
    if spec.get('engine') == 'custom':
        # replay of an SMTQ witness: the real encode / decode on its values
        import c15_smtq
        w = S.w if S.concrete else {}
        ok, fname, got = c15_smtq._roundtrip(
            w.get('kind', 'dnat'), w.get('values', {}).get('chain') or
            'TM_PREROUTING_DNAT', w.get('values', c15_smtq.DEFAULTS))
        S.check('C15:rule_file_name_round_trip', ok,
                {'file_name': fname, 'decoded': got})
        return
    k = spec['kind']
    if k == 'trace':
        _trace(S, spec)
    elif k == 'uniquename':
        _uniquename(S, spec)
    elif k == 'uniquename2':
        _uniquename2(S, spec)
    elif k in ('zkpayload', 'zkpayload2'):
        import c15_zk
        c15_zk.harness(S, spec)
    else:
        import c15_ldap
        c15_ldap.harness(S, spec)


TWINS = ['trace-scheduled', 'uniquename']

META = {
    'functions_encoded': [
        'trace.app.events.*TraceEvent.to_data / from_data / event_data',
        'trace.server.events.*TraceEvent.to_data / from_data',
        'appcfg._fmt_unique_name', 'appcfg.app_name', 'appcfg.app_unique_id'],
    'reach_required': ['encoded', 'zk_payload_written'],
}
