"""C15 (LDAP part): applications, cell allocations and partitions survive
to_entry / from_entry with any subset of optional fields."""
import repo  # noqa: F401


GROUPS = ['scalars', 'bools', 'lists', 'nested', 'services', 'endpoints']


def subharnesses(tier):
    subs = []
    for vary in GROUPS:
        for others in ('present', 'absent'):
            subs.append(('ldap-app-%s-others_%s' % (vary, others),
                         {'kind': 'ldap', 'obj': 'app', 'vary': vary,
                          'others': others}))
    for n in (10, 11, 17):
        subs.append(('ldap-app-long-lists-%d' % n,
                     {'kind': 'ldap', 'obj': 'app', 'vary': 'none',
                      'others': 'absent', 'long': n}))
    subs.append(('ldap-cellalloc', {'kind': 'ldap', 'obj': 'cellalloc'}))
    subs.append(('ldap-partition', {'kind': 'ldap', 'obj': 'partition'}))
    return subs


def _subset(a, b, path=''):
    """a (what was written) is contained in b (what was read back), lists of
    keyed dicts compared after sorting by their key."""
    if isinstance(a, dict):
        if not isinstance(b, dict):
            return path or '.'
        for k, v in a.items():
            if v in (None, [], {}) and k not in b:
                continue
            if k not in b:
                return path + '/' + k
            r = _subset(v, b[k], path + '/' + k)
            if r:
                return r
        return None
    if isinstance(a, list):
        if not isinstance(b, list) or len(a) != len(b):
            return path
        if a and isinstance(a[0], dict):
            key = 'name' if 'name' in a[0] else sorted(a[0])[0]
            a = sorted(a, key=lambda d: d[key])
            b = sorted(b, key=lambda d: d[key])
        elif a and all(isinstance(x, str) for x in a):
            a, b = sorted(a), sorted(b)
        for i, (x, y) in enumerate(zip(a, b)):
            r = _subset(x, y, '%s[%d]' % (path, i))
            if r:
                return r
        return None
    return None if a == b else path


def harness(S, spec):
    from treadmill.admin import _ldap
    kind = spec['obj']

    def opt(name, group):
        """Optional field present?  Symbolic inside the varied group, fixed
        (all present / all absent) elsewhere - fields are encoded one by one,
        so groups are varied one at a time (stated bound)."""
        if spec.get('vary') == group:
            return S.flag(name)
        return spec.get('others') == 'present'

    def pick(name, n, group):
        if spec.get('vary') == group:
            return S.choice(name, n)
        return n - 1 if spec.get('others') == 'present' else 0
    if kind == 'app':
        cls = _ldap.Application
        obj = {'_id': 'proid.app'}
        for f, vals in (('memory', ['1G', '512M']), ('cpu', ['10%']),
                        ('disk', ['1G']), ('identity_group', ['proid.g']),
                        ('lease', ['1h']), ('data_retention_timeout', ['30s']),
                        ('image', ['docker://x'])):
            if opt('has_' + f, 'scalars'):
                obj[f] = vals[pick(f, len(vals), 'scalars')] \
                    if len(vals) > 1 else vals[0]
        for f in ('shared_ip', 'shared_network', 'schedule_once'):
            if opt('has_' + f, 'bools'):
                obj[f] = opt(f, 'bools')
        for f, pool in (('tickets', ['u@R', 'v@R']), ('features', ['a']),
                        ('passthrough', ['h1', 'h2']), ('traits', ['t']),
                        ('args', ['-x', '-y'])):
            n = pick('n_' + f, len(pool) + 1, 'lists')
            if n:
                obj[f] = pool[:n]
                # an argument vector may repeat a token (-v -v, two options
                # with the same value): repetition is part of the value
                if f == 'args' and spec.get('vary') == 'lists' and \
                        S.flag('args_repeat_a_token'):
                    obj[f] = pool[:n] + [pool[0]] + (['-z', pool[0]]
                                                     if n > 1 else [])
        if opt('has_ephemeral', 'nested'):
            obj['ephemeral_ports'] = {}
            if opt('eph_tcp', 'nested'):
                obj['ephemeral_ports']['tcp'] = 1 + pick('eph_tcp_n', 2,
                                                         'nested')
            if opt('eph_udp', 'nested'):
                obj['ephemeral_ports']['udp'] = 2
        svcs = []
        for i in range(pick('n_services', 3, 'services')):
            sv = {'name': ('web', 'app')[i], 'command': '/bin/s%d' % i}
            if opt('svc%d_restart' % i, 'services'):
                sv['restart'] = {'limit': pick('svc%d_limit' % i, 3,
                                               'services'),
                                 'interval': 30}
            if opt('svc%d_root' % i, 'services'):
                sv['root'] = opt('svc%d_root_value' % i, 'services')
            svcs.append(sv)
        if svcs or opt('empty_services', 'services'):
            obj['services'] = svcs
        eps = []
        for i in range(pick('n_endpoints', 3, 'endpoints')):
            ep = {'name': ('http', 'dns')[i], 'port': (80, 0)[i]}
            if opt('ep%d_proto' % i, 'endpoints'):
                ep['proto'] = ('tcp', 'udp')[pick('ep%d_proto_v' % i, 2,
                                                  'endpoints')]
            if opt('ep%d_infra' % i, 'endpoints'):
                ep['type'] = 'infra'
            eps.append(ep)
        if eps:
            obj['endpoints'] = eps
        if spec.get('long'):
            n = spec['long']
            which = S.choice('long_list', 3)
            if which == 0:
                obj['endpoints'] = [{'name': 'ep%02d' % k, 'port': 1000 + k}
                                    for k in range(n)]
            elif which == 1:
                obj['environ'] = [{'name': 'V%02d' % k, 'value': str(k)}
                                  for k in range(n)]
            else:
                obj['services'] = [{'name': 's%02d' % k, 'command': '/c%d' % k}
                                   for k in range(n)]
        if opt('has_environ', 'nested'):
            obj['environ'] = [{'name': 'B', 'value': '2'},
                              {'name': 'A', 'value': ''}][:1 + pick(
                                  'n_environ', 2, 'nested')]
        if opt('has_affinity_limits', 'nested'):
            obj['affinity_limits'] = {'rack': 1, 'server': 2} \
                if opt('two_limits', 'nested') else {'rack': 1}
    elif kind == 'cellalloc':
        cls = _ldap.CellAllocation
        obj = {'cell': 'c1', 'cpu': '10%', 'memory': '1G', 'disk': '1G',
               'rank': 100 - S.choice('rank', 3)}
        if S.flag('has_rank_adjustment'):
            obj['rank_adjustment'] = S.choice('rank_adjustment', 3)
        if S.flag('has_max_utilization'):
            obj['max_utilization'] = (1, 1.5)[S.choice('mu', 2)]
        if S.flag('has_partition'):
            obj['partition'] = 'p1'
        if S.flag('has_traits'):
            obj['traits'] = ['t1', 't2'][:1 + S.choice('ntraits', 2)]
        n = S.choice('n_assignments', 3)
        if n:
            obj['assignments'] = [{'pattern': 'proid.b*', 'priority': 2},
                                  {'pattern': 'proid.a*', 'priority': 1}][:n]
    else:
        cls = _ldap.Partition
        obj = {'_id': 'p1', 'cpu': '100%', 'memory': '10G', 'disk': '10G'}
        if S.flag('has_down_threshold'):
            obj['down-threshold'] = S.choice('down_threshold', 3)
        if S.flag('has_systems'):
            obj['systems'] = [1, 2][:1 + S.choice('nsystems', 2)]
        if S.flag('has_reboot_schedule'):
            obj['reboot-schedule'] = 'mon/23:59:59'
        if S.flag('has_data'):
            obj['data'] = {'b': 1, 'a': [1, 2]}
        n = S.choice('n_limits', 3)
        if n:
            obj['limits'] = [{'trait': 'x', 'cpu': '10%', 'memory': '1G',
                              'disk': '1G'},
                             {'trait': 'a', 'cpu': '20%', 'memory': '2G',
                              'disk': '2G'}][:n]
    inst = cls(None)
    entry = inst.to_entry(dict(obj))
    back = inst.from_entry(entry)
    S.reach('encoded')
    bad = _subset(obj, back)
    S.check('C15:ldap_object_changed_by_round_trip', bad is None,
            {'object': kind, 'field': bad, 'written': obj, 'read': back})
    # the normal form read back is a fixed point
    again = inst.from_entry(inst.to_entry(dict(back)))

    def canon(o):
        # a missing ephemeral port count means 0
        o = dict(o)
        if 'ephemeral_ports' in o:
            o['ephemeral_ports'] = {
                'tcp': o['ephemeral_ports'].get('tcp', 0),
                'udp': o['ephemeral_ports'].get('udp', 0)}
        return o
    S.check('C15:ldap_normal_form_not_stable', canon(again) == canon(back),
            {'object': kind, 'first': back, 'second': again})
