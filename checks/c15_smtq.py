"""C15 (SMTQ part): rule-file names - regular-language lemmas generated from
rulefile's compiled regexes and its real _filenameify templates."""
import time

import z3

import repo  # noqa: F401
import smtq


def subharnesses(tier):
    return [('rulefile-lemmas', {'engine': 'custom', 'what': 'rulefile'}),
            ('base62-lemmas', {'engine': 'custom', 'what': 'basen'}),
            ('uniqueid-boundaries', {'engine': 'custom', 'what': 'uniqueid'})]


def _templates():
    """Sentinel execution of the real RuleMgr._filenameify: field order and
    the literal text between fields, per rule kind."""
    from treadmill import firewall, rulefile
    out = {}
    sent = {'chain': 'CHAINMARK', 'proto': 'PROTOMARK',
            'src_ip': '101.101.101.101', 'src_port': 11111,
            'dst_ip': '102.102.102.102', 'dst_port': 22222,
            'new_ip': '103.103.103.103', 'new_port': 33333}
    fields = ['proto', 'src_ip', 'src_port', 'dst_ip', 'dst_port', 'new_ip',
              'new_port']

    def mark(text, names):
        for f in names:
            text = text.replace(str(sent[f]), '\x01%s\x02' % f)
        return text
    for kind, cls in (('dnat', firewall.DNATRule), ('snat', firewall.SNATRule)):
        r = cls(**{f: sent[f] for f in fields})
        out[kind] = mark(rulefile.RuleMgr._filenameify(sent['chain'], r),
                         ['chain'] + fields)
    r = firewall.PassThroughRule(src_ip=sent['src_ip'], dst_ip=sent['dst_ip'])
    out['passthrough'] = mark(
        rulefile.RuleMgr._filenameify(sent['chain'], r),
        ['chain', 'src_ip', 'dst_ip'])
    seqs = {}
    for kind, s in out.items():
        seq = []
        rest = s
        while rest:
            if rest[0] == '\x01':
                end = rest.index('\x02')
                seq.append(('group', rest[1:end]))
                rest = rest[end + 1:]
            else:
                nxt = rest.find('\x01')
                lit = rest if nxt < 0 else rest[:nxt]
                seq.append(('lit', lit))
                rest = rest[len(lit):]
        seqs[kind] = seq
    return seqs


def _roundtrip(kind, chain, vals):
    """Real code: get_rule(_filenameify(rule)) == (chain, rule)?"""
    from treadmill import firewall, rulefile

    def port(v):
        return None if v == '*' else int(v)

    def ip(v):
        return None if v == '*' else v
    if kind == 'passthrough':
        rule = firewall.PassThroughRule(src_ip=vals['src_ip'],
                                        dst_ip=vals['dst_ip'])
    else:
        cls = firewall.DNATRule if kind == 'dnat' else firewall.SNATRule
        rule = cls(proto=vals['proto'], src_ip=ip(vals['src_ip']),
                   src_port=port(vals['src_port']), dst_ip=ip(vals['dst_ip']),
                   dst_port=port(vals['dst_port']), new_ip=vals['new_ip'],
                   new_port=int(vals['new_port']))
    name = rulefile.RuleMgr._filenameify(chain, rule)
    got = rulefile.RuleMgr.get_rule(name)
    if got is None:
        return False, name, None
    gchain, grule = got
    same = (gchain == chain and type(grule) is type(rule))
    if same:
        for f in rule.__slots__:
            a, b = getattr(rule, f), getattr(grule, f)
            if str(a) != str(b):
                same = False
    return same, name, repr(grule)


DEFAULTS = {'proto': 'tcp', 'src_ip': '1.2.3.4', 'src_port': '10',
            'dst_ip': '5.6.7.8', 'dst_port': '20', 'new_ip': '9.9.9.9',
            'new_port': '30'}


def _uniqueid(tier):
    """The real gen_uniqueid / eventfile_unique_name / app_unique_id /
    app_name chain at the seeds where the number of base-62 digits changes
    (62^(k-1) - 1, 62^(k-1), 62^k - 1 for k = 1..13, capped at 77 bits) and at
    seeds the solver picks for each digit count: the id is always 13
    characters of the alphabet and decodes to what was written.  os.stat of
    the event file is a shim that yields the seed."""
    import os
    import string
    from treadmill import appcfg
    t0 = time.monotonic()
    res = {'completed': 0, 'ignored': 0, 'unknown': 0, 'timeouts': 0,
           'exhausted': True, 'violation': None, 'known': {}, 'reached': {},
           'samples': [], 'decisions': 0, 'queries': 0, 'validated': 0,
           'error': None}
    numerals = string.digits + string.ascii_lowercase + string.ascii_uppercase
    seeds = set()
    for k in range(1, 14):
        for v in (62 ** (k - 1) - 1, 62 ** (k - 1), 62 ** k - 1):
            if 0 <= v < 2 ** 77:
                seeds.add(v)
    seeds |= {0, 2 ** 77 - 1, 2 ** 64, 2 ** 64 - 1}
    # one more seed per digit count from the solver (62^(k-1) <= n < 62^k,
    # low 13 bits forced to differ from the boundary values)
    for k in range(1, 14):
        sol = z3.Solver()
        n = z3.Int('n')
        sol.add(n >= 62 ** (k - 1) if k > 1 else n >= 0, n < 62 ** k,
                n < 2 ** 77, n % 8192 == (k * 977) % 8192 if k > 3
                else n >= 0)
        res['queries'] += 1
        if sol.check() == z3.sat:
            seeds.add(sol.model()[n].as_long())
    inst = 'proid.app#0000000123'
    iid = 123

    class _Os:
        seed = 0

        def __getattr__(self, k):
            return getattr(os, k)

        def stat(self, path, *a, **kw):
            # seed = (ctime_us << 64) + (inode ^ (instance << 31)), 77 bits
            low = _Os.seed & (2 ** 64 - 1)
            high = _Os.seed >> 64

            class _St:
                st_ctime = high / 10.0 ** 6
                st_ino = low ^ ((iid << 31) & (2 ** 64 - 1))
            return _St()
    real_os = appcfg.os
    appcfg.os = _Os()
    try:
        for sd in sorted(seeds):
            _Os.seed = sd
            path = '/cache/' + inst
            uid = appcfg.gen_uniqueid(path)
            name = appcfg.eventfile_unique_name(path)
            ok = (len(uid) == 13 and all(c in numerals for c in uid) and
                  appcfg.app_unique_id(name) == uid and
                  appcfg.app_name(name) == inst and name.endswith(uid))
            res['completed'] += 1
            res['validated'] += 1
            if not ok:
                res['violation'] = {
                    'label': 'C15:unique_id_not_13_characters_or_not_decoded',
                    'witness': {'seed': sd, 'uniqueid': uid,
                                'unique_name': name,
                                'decoded_id': appcfg.app_unique_id(name)},
                    'info': None, 'trace': []}
                res['custom_replayed'] = True
                break
    finally:
        appcfg.os = real_os
    res['reached'] = {'encoded': res['completed']}
    res['wall_s'] = round(time.monotonic() - t0, 2)
    return res


def run_custom(name, params, tier):
    if params.get('what') == 'uniqueid':
        r = _uniqueid(tier)
        r['params'] = params
        return r
    if params.get('what') == 'basen':
        r = _basen(tier)
        r['params'] = params
        return r
    from treadmill import iptables, rulefile
    t0 = time.monotonic()
    L = smtq.Lemmas(timeout_ms=60000 if tier == 'quick' else 300000)
    res = {'completed': 0, 'ignored': 0, 'unknown': 0, 'timeouts': 0,
           'exhausted': True, 'violation': None, 'known': {}, 'reached': {},
           'samples': [], 'decisions': 0, 'queries': 0, 'validated': 0,
           'error': None, 'params': params}
    regexes = {'dnat': rulefile._DNAT_FILE_RE.pattern,
               'snat': rulefile._SNAT_FILE_RE.pattern,
               'passthrough': rulefile._PASSTHROUGH_FILE_RE.pattern}
    trans = {k: smtq.regex_to_z3(p) for k, p in regexes.items()}
    templates = _templates()
    chains = [iptables.PREROUTING_DNAT, iptables.POSTROUTING_SNAT,
              iptables.PREROUTING_PASSTHROUGH]
    s = z3.String('s')
    t = z3.String('t')
    fails = []

    def violated(lemma, kind, field_vals, chain=None):
        vals = dict(DEFAULTS)
        vals.update(field_vals)
        ok, fname, got = _roundtrip(kind, chain or chains[0], vals)
        fails.append({'lemma': lemma, 'kind': kind, 'values': vals,
                      'file_name': fname, 'decoded': got,
                      'confirmed_on_real_code': not ok})

    for kind, (whole, top) in trans.items():
        # structure: the regex's field order / separators are the template's
        shape_re = [(k, n) for (k, n, _r) in top]
        shape_t = templates[kind]
        if shape_re != shape_t:
            fails.append({'lemma': 'template_matches_regex', 'kind': kind,
                          'regex': shape_re, 'template': shape_t,
                          'confirmed_on_real_code': True})
        groups = [(i, n, r) for i, (k, n, r) in enumerate(top)
                  if k == 'group']
        for i, gname, greg in groups:
            # L1: a field never contains the first character of the separator
            # that follows it (=> the parse is unique, decode = encode^-1)
            if i + 1 < len(top) and top[i + 1][0] == 'lit':
                sep = top[i + 1][1][0]
                r, wit = L.unsat(
                    'L1:%s:%s_excludes_%r' % (kind, gname, sep),
                    z3.InRe(s, greg), z3.Contains(s, z3.StringVal(sep)),
                    witness_of={gname: s})
                if r == 'sat' and gname != 'chain':
                    violated('L1', kind, wit)
                elif r == 'sat':
                    violated('L1', kind, {}, chain=wit['chain'])
            # L2: every valid rendering lies in the field's language
            valid = None
            if gname == 'proto':
                valid = z3.Union(z3.Re('tcp'), z3.Re('udp'))
            elif gname.endswith('_ip'):
                valid = smtq.dotted_quad()
            elif gname.endswith('_port'):
                valid = smtq.port_1_65535()
            if valid is not None:
                r, wit = L.unsat('L2:%s:%s_accepts_valid' % (kind, gname),
                                 z3.InRe(s, valid),
                                 z3.Not(z3.InRe(s, greg)),
                                 witness_of={gname: s})
                if r == 'sat':
                    violated('L2', kind, wit)
            if kind != 'passthrough' and gname in ('src_ip', 'src_port',
                                                   'dst_ip', 'dst_port'):
                r, wit = L.unsat('L2:%s:%s_accepts_wildcard' % (kind, gname),
                                 s == z3.StringVal('*'),
                                 z3.Not(z3.InRe(s, greg)),
                                 witness_of={gname: s})
                if r == 'sat':
                    violated('L2', kind, wit)
            if gname in ('new_ip', 'new_port') or kind == 'passthrough' \
                    and gname != 'chain':
                # L5: fields that cannot be wildcarded do not accept '*'
                L.unsat('L5:%s:%s_rejects_wildcard' % (kind, gname),
                        s == z3.StringVal('*'), z3.InRe(s, greg))
            if gname == 'chain':
                for c in chains:
                    r, wit = L.unsat('L2:%s:chain_accepts_%s' % (kind, c),
                                     s == z3.StringVal(c),
                                     z3.Not(z3.InRe(s, greg)),
                                     witness_of={'chain': s})
                    if r == 'sat':
                        violated('L2', kind, {}, chain=c)
    # L3: the three kinds are told apart whatever order decode tries them in
    kinds = list(trans)
    for a in range(3):
        for b in range(a + 1, 3):
            L.unsat('L3:%s_disjoint_from_%s' % (kinds[a], kinds[b]),
                    z3.InRe(s, trans[kinds[a]][0]),
                    z3.InRe(s, trans[kinds[b]][0]))
    # L4: int(str(p)) == p and at most 5 digits on 1..65535
    p = z3.Int('p')
    L.unsat('L4:port_decimal_round_trip', p >= 1, p <= 65535,
            z3.Or(z3.StrToInt(z3.IntToStr(p)) != p,
                  z3.Length(z3.IntToStr(p)) > 5,
                  z3.Not(z3.InRe(z3.IntToStr(p), smtq.port_1_65535()))))
    # boundary witnesses from the solver through the real encode / decode
    nwit = 0
    for kind, (whole, top) in trans.items():
        per_field = {}
        for (k, gname, greg) in top:
            if k != 'group' or gname == 'chain':
                continue
            valid = greg
            if gname.endswith('_ip'):
                valid = z3.Union(smtq.dotted_quad(), z3.Re('*')) \
                    if gname in ('src_ip', 'dst_ip') and \
                    kind != 'passthrough' else smtq.dotted_quad()
            elif gname.endswith('_port'):
                valid = z3.Union(smtq.port_1_65535(), z3.Re('*')) \
                    if gname in ('src_port', 'dst_port') else \
                    smtq.port_1_65535()
            per_field[gname] = L.models(
                s, [z3.InRe(s, valid), z3.InRe(s, greg)],
                6 if tier == 'quick' else 20)
        width = max(len(v) for v in per_field.values())
        for i in range(width):
            vals = {f: v[i % len(v)] for f, v in per_field.items()}
            full = dict(DEFAULTS)
            full.update(vals)
            for c in chains:
                ok, fname, got = _roundtrip(kind, c, full)
                nwit += 1
                if not ok:
                    fails.append({'lemma': 'witness_round_trip', 'kind': kind,
                                  'values': full, 'file_name': fname,
                                  'decoded': got,
                                  'confirmed_on_real_code': True})
                elif len(res['samples']) < 3:
                    res['samples'].append({'kind': kind, 'file_name': fname})
    incon = [r for r in L.results if r[1] not in ('unsat', 'sat')]
    sat = [r for r in L.results if r[1] == 'sat']
    res['queries'] = len(L.results)
    res['completed'] = len([r for r in L.results if r[1] == 'unsat'])
    res['unknown'] = len(incon)
    res['solver_s'] = round(L.solver_s, 2)
    res['validated'] = nwit
    res['reached'] = {'lemmas_discharged': res['completed'],
                      'witnesses_through_real_code': nwit}
    res['lemmas'] = [(n, v, dt) for (n, v, dt, _w) in L.results]
    confirmed = [f for f in fails if f.get('confirmed_on_real_code')]
    if confirmed:
        f = confirmed[0]
        res['violation'] = {'label': 'C15:rule_file_name_%s' % f['lemma'],
                            'witness': f, 'info': fails[:5], 'trace': []}
        res['custom_replayed'] = True
    elif sat or fails:
        res['error'] = ('lemma refuted but the witness round-trips on the '
                        'real code: %r' % ((sat or fails)[:3],))
    res['wall_s'] = round(time.monotonic() - t0, 2)
    return res


# ---------------------------------------------------------------- base-62 ids

def _basen(tier):
    """utils.to_base_n / from_base_n translated from their current source by
    lib/pyeval.py; gen_uniqueid's seed is any 77-bit integer."""
    import random
    import string
    import pyeval
    from treadmill import utils
    t0 = time.monotonic()
    numerals = string.digits + string.ascii_lowercase + string.ascii_uppercase
    res = {'completed': 0, 'ignored': 0, 'unknown': 0, 'timeouts': 0,
           'exhausted': True, 'violation': None, 'known': {}, 'reached': {},
           'samples': [], 'decisions': 0, 'queries': 0, 'validated': 0,
           'error': None}
    if len(set(numerals)) != 62:
        res['error'] = 'alphabet characters are not distinct'
        return res
    # the repository's own test vectors and boundary values through the real
    # functions first (a witness here needs no solver)
    rnd0 = random.Random(11)
    for x in [0, 10, 2313, 23134223879243284, 61, 62, 2 ** 53 + 1,
              2 ** 64 + 12345, 2 ** 77 - 1] + \
            [rnd0.randrange(2 ** 77) for _ in range(50)]:
        enc = utils.to_base_n(x, base=62, alphabet=numerals)
        if utils.from_base_n(enc, base=62, alphabet=numerals) != x or \
                len(enc) > 13:
            res['violation'] = {'label': 'C15:base62_round_trip',
                                'witness': {'n': x, 'encoded': enc},
                                'info': None, 'trace': []}
            res['custom_replayed'] = True
            return res
    A = pyeval.Alphabet(numerals)
    n = z3.Int('n')
    try:
        pyeval.Evaluator(utils.to_base_n, unroll=13).run(
            num=n, base=z3.IntVal(62), alphabet=A)
    except NotImplementedError as e:
        res['error'] = None
        res['unknown'] = 1
        res['exhausted'] = False
        res['reached'] = {'source_construct_outside_the_translator': repr(e)}
        return res
    ev = pyeval.Evaluator(utils.to_base_n, unroll=13)
    rets = ev.run(num=n, base=z3.IntVal(62), alphabet=A)

    def as_seq(v):
        return v if isinstance(v, pyeval.DigitSeq) else \
            pyeval.DigitSeq([v], z3.IntVal(1))
    seq = None
    for g, v in reversed(rets):
        v = as_seq(v)
        seq = v if seq is None else pyeval.Evaluator._merge(g, v, seq)
    ev2 = pyeval.Evaluator(utils.from_base_n, unroll=13)
    rets2 = ev2.run(base_num=seq, base=z3.IntVal(62), alphabet=A)
    back = rets2[0][1]
    # translator validation: the real functions vs the encoding
    vectors = [0, 1, 61, 62, 63, 3843, 3844, 2 ** 64, 2 ** 77 - 1,
               12345678901234567890]
    rnd = random.Random(7)
    vectors += [rnd.randrange(2 ** 77) for _ in range(200)]
    for x in vectors:
        real = utils.to_base_n(x, base=62, alphabet=numerals)
        ln = z3.simplify(z3.substitute(seq.n, (n, z3.IntVal(x)))).as_long()
        digs = [z3.simplify(z3.substitute(d, (n, z3.IntVal(x)))).as_long()
                for d in seq.slots[:ln]]
        enc = ''.join(numerals[d] for d in digs)
        dec = z3.simplify(z3.substitute(back, (n, z3.IntVal(x)))).as_long()
        if enc != real or dec != utils.from_base_n(real, base=62,
                                                   alphabet=numerals):
            res['error'] = 'translator disagrees with the real function ' \
                'on %d: %r vs %r' % (x, enc, real)
            return res
        res['validated'] += 1
        if x != utils.from_base_n(real, base=62, alphabet=numerals):
            res['violation'] = {'label': 'C15:base62_round_trip',
                                'witness': {'n': x, 'encoded': real},
                                'info': None, 'trace': []}
            res['custom_replayed'] = True
            return res
    L = smtq.Lemmas(timeout_ms=120000 if tier == 'quick' else 900000)
    full = z3.And(n >= 0, n < 2 ** 77)
    for i, (d, ob) in enumerate(ev.obligations + ev2.obligations):
        L.unsat('B1:%s#%d' % (d, i), full, z3.Not(ob))
    for g, txt in ev.raises + ev2.raises:
        L.unsat('B2:unreachable:' + txt[:40], full, g)
    L.unsat('B3:at_most_13_digits_below_2^77', full, seq.n > 13)
    L.unsat('B3:at_least_one_digit', full, seq.n < 1)
    # monolithic round trip; the bound is the largest that the solver decides
    # within the time limit (stated in the evidence)
    proved = None
    for k in ((2, 3, 4) if tier == 'quick' else (2, 3, 4, 5, 6, 8, 13)):
        r, wit = L.unsat('B4:from_base_n(to_base_n(n))==n_below_62^%d' % k,
                         n >= 0, n < 62 ** k, back != n,
                         witness_of={'n': n})
        if r == 'unsat':
            proved = k
        elif r == 'sat':
            x = wit['n']
            real = utils.to_base_n(x, base=62, alphabet=numerals)
            if utils.from_base_n(real, base=62, alphabet=numerals) != x:
                res['violation'] = {'label': 'C15:base62_round_trip',
                                    'witness': {'n': x, 'encoded': real},
                                    'info': None, 'trace': []}
                res['custom_replayed'] = True
            else:
                res['error'] = 'B4 refuted at %r but the real code agrees' % x
            break
        else:
            break
    # one loop iteration preserves num*62^k + value(digits) == n  (the
    # inductive step of the general claim, linear for each fixed k)
    q = z3.Int('q')
    L.unsat('B5:division_step', q >= 0,
            z3.Or(q != 62 * (q / 62) + q % 62, q % 62 < 0, q % 62 > 61))
    hard = [r for r in L.results if r[1] != 'unsat' and
            not r[0].startswith('B4')]
    res['queries'] = len(L.results)
    res['completed'] = len([r for r in L.results if r[1] == 'unsat'])
    res['unknown'] = len(hard)
    res['solver_s'] = round(L.solver_s, 2)
    res['reached'] = {'lemmas_discharged': res['completed'],
                      'base62_round_trip_proved_below_62^k': proved or 0}
    res['lemmas'] = [(nm, v, dt) for (nm, v, dt, _w) in L.results]
    res['samples'] = [{'n': vectors[8], 'encoded': utils.to_base_n(
        vectors[8], base=62, alphabet=numerals)}]
    res['wall_s'] = round(time.monotonic() - t0, 2)
    return res
