"""C15 (ZooKeeper payload part): resource objects - dictionaries and lists -
written with zkutils.put / create / update come back unchanged from
zkutils.get / get_with_metadata, and distinct objects get distinct payloads.

The codec ends in the C implementation of json (and the yaml fall-back), which
the engine cannot reason about symbolically: a value that reaches it is
realised.  So the object is a *term of a bounded grammar* whose alternatives
are solver choices (shape first, then leaves from pools that contain the
tokens YAML and JSON treat specially); each decision tree is exhausted.  What
is decided symbolically is only which branch of the Python code (_payload,
get_with_metadata: bytes / text / json / yaml fall-back / strict) a shape
takes.  Stated bound: depth <= 2, <= 2 entries per container, leaves from the
pools below."""
import repo  # noqa: F401
import memzk

STR_POOL = ['', 'a', 'true', 'null', '1', '1e5', '0x1F', '1:30', 'a: b',
            '- x', '#c', '~', 'yes', '{}', '[]', '"q"', "it's", 'a\nb',
            ' lead', 'trail ', 'é', '\\', 'a,b', '2018-01-01']
INT_POOL = [0, 1, -1, 2 ** 31, 2 ** 53 + 1, -2 ** 63, 10 ** 20]
KEY_POOL = ['a', 'b', '', '1', 'true', 'a b', 'k:v', 'é']
WRITERS = ['put', 'create', 'update', 'put_existing', 'put_check_content',
           'ensure_exists', 'ensure_exists_existing']


def subharnesses(tier):
    subs = []
    for top in ('dict', 'list'):
        for vary in ('leaf', 'shape'):
            for writer in (WRITERS if vary == 'shape' or tier == 'thorough'
                           else WRITERS[:1]):
                subs.append(('zkpayload-%s-%s-%s' % (top, vary, writer),
                             {'kind': 'zkpayload', 'top': top, 'vary': vary,
                              'writer': writer}))
    subs.append(('zkpayload-distinct', {'kind': 'zkpayload2'}))
    return subs


def _leaf(S, name):
    kind = S.choice(name + '_kind', 5)
    if kind == 0:
        return None
    if kind == 1:
        return bool(S.choice(name + '_bool', 2))
    if kind == 2:
        return INT_POOL[S.choice(name + '_int', len(INT_POOL))]
    if kind == 3:
        return STR_POOL[S.choice(name + '_str', len(STR_POOL))]
    return (1.5, -0.25, 1e300)[S.choice(name + '_float', 3)]


SMALL = [None, 0, 'a', [], {}, [0], {'a': None}]


def _object(S, spec, name='o'):
    """One thing is varied at a time (stated bound): 'leaf' - one entry, any
    key, any leaf, bare or wrapped in a list / dictionary; 'shape' - up to two
    entries, three keys, values from a small pool that includes containers."""
    top = spec['top']
    if spec['vary'] == 'leaf':
        v = _leaf(S, name)
        wrap = S.choice(name + '_wrap', 3)
        if wrap == 1:
            v = [v]
        elif wrap == 2:
            v = {KEY_POOL[S.choice(name + '_inner_key', len(KEY_POOL))]: v}
        if top == 'list':
            return [v]
        return {KEY_POOL[S.choice(name + '_key', len(KEY_POOL))]: v}
    n = S.choice(name + '_n', 3)
    vals = [SMALL[S.choice('%s_v%d' % (name, i), len(SMALL))]
            for i in range(n)]
    import copy
    vals = copy.deepcopy(vals)
    if top == 'list':
        return vals
    keys = [('a', 'b', '')[S.choice('%s_k%d' % (name, i), 3)]
            for i in range(n)]
    return dict(zip(keys, vals))


CONFUSABLE = [None, 'null', True, 'true', 1, '1', 1.0, '', [], {}, [1],
              {'1': 1}]


def _tiny(S, name):
    """[] / [v] / {} / {k: v} with values that could be confused after
    serialisation."""
    top = S.choice(name + '_top', 2)
    if not S.choice(name + '_n', 2):
        return [] if top else {}
    import copy
    v = copy.deepcopy(CONFUSABLE[S.choice(name + '_v', len(CONFUSABLE))])
    if top:
        return [v]
    return {('a', '1')[S.choice(name + '_k', 2)]: v}


def _client():
    tree = memzk.Tree()
    zk = memzk.Client(tree, 1)
    zk.make_default_acl = lambda acl: acl
    zk.set_acls = lambda path, acl: None
    return tree, zk


def _write(zkutils, zk, tree, writer, path, obj):
    if writer == 'put':
        zkutils.put(zk, path, obj)
    elif writer == 'create':
        zkutils.create(zk, path, obj)
    elif writer == 'update':
        tree.seed(path, b'{"old": 1}')
        zkutils.update(zk, path, obj)
    elif writer == 'put_existing':
        tree.seed(path, b'old: 1')
        zkutils.put(zk, path, obj)
    elif writer == 'ensure_exists':
        zkutils.ensure_exists(zk, path, data=obj)
    elif writer == 'ensure_exists_existing':
        # how cellsync publishes lists: the node already holds an older value
        tree.seed(path, b'["srv1", "srv2"]')
        zkutils.ensure_exists(zk, path, data=obj)
    elif writer == 'put_check_content':
        tree.seed(path, b'{"old": 1}')
        zkutils.put(zk, path, obj, check_content=True)
        zkutils.put(zk, path, obj, check_content=True)


def harness(S, spec):
    from treadmill import zkutils
    if spec['kind'] == 'zkpayload':
        tree, zk = _client()
        obj = _object(S, spec)
        path = '/x/node'
        _write(zkutils, zk, tree, spec['writer'], path, obj)
        S.reach('encoded')
        S.reach('zk_payload_written')
        raw = tree.nodes[path].data
        S.check('C15:zk_payload_is_not_bytes', isinstance(raw, bytes))
        back = zkutils.get(zk, path)
        S.check('C15:zk_payload_changed_by_round_trip',
                back == obj and type(back) is type(obj) and
                _same_types(back, obj),
                {'written': repr(obj), 'read': repr(back),
                 'payload': repr(raw)})
        back2, meta = zkutils.get_with_metadata(zk, path)
        S.check('C15:zk_payload_changed_by_round_trip', back2 == obj,
                {'written': repr(obj), 'read': repr(back2)})
        S.check('C15:zk_get_default_differs',
                zkutils.get_default(zk, path, default='D') == obj)
        S.check('C15:zk_get_default_differs',
                zkutils.get_default(zk, '/x/none', default='D') == 'D')
        return
    # two objects: equal payload  =>  equal objects
    tree, zk = _client()
    a = _tiny(S, 'a')
    b = _tiny(S, 'b')
    zkutils.put(zk, '/x/a', a)
    zkutils.put(zk, '/x/b', b)
    S.reach('encoded')
    same_payload = tree.nodes['/x/a'].data == tree.nodes['/x/b'].data
    same_obj = a == b and _same_types(a, b)
    S.check('C15:distinct_objects_share_a_zk_payload',
            (not same_payload) or same_obj,
            {'a': repr(a), 'b': repr(b),
             'payload': repr(tree.nodes['/x/a'].data)})


def _same_types(x, y):
    if type(x) is not type(y):
        return False
    if isinstance(x, dict):
        return set(x) == set(y) and all(_same_types(x[k], y[k]) for k in x)
    if isinstance(x, list):
        return len(x) == len(y) and all(_same_types(a, b)
                                        for a, b in zip(x, y))
    return True
