"""C16 - what a container start registers on the host is removed when it finishes."""
import os

import repo  # noqa: F401
import fsx

PROPERTY = 'C16'
HOSTMAP = {'gw1.example.com': '192.168.1.10', 'gw2.example.com': '192.168.1.11',
           'alias.example.com': '192.168.1.10'}


def subharnesses(tier):
    subs = []
    for nep in (0, 1, 2):
        for npass in (0, 1, 2, 3):
            for vring in (False, True):
                if tier == 'quick' and nep == 2 and npass == 3:
                    continue
                for il in range(6):
                    if il >= 4 and tier == 'quick' and npass > 1:
                        continue
                    subs.append(('ep%d-pass%d-%s-order%d' % (
                        nep, npass, 'vring' if vring else 'novring', il),
                        {'nep': nep, 'npass': npass, 'vring': vring,
                         'order': il}))
    # a transient failure of one IP-set removal (ipset returns an error, or
    # the finish process is killed there); the finish is then run again, as
    # the cleanup service does
    for nep in ((0, 1) if tier == 'quick' else (0, 1, 2)):
        for vring in (False, True):
            for il in (2, 3):
                subs.append(('ep%d-pass1-%s-order%d-ipset_fault' % (
                    nep, 'vring' if vring else 'novring', il),
                    {'nep': nep, 'npass': 1, 'vring': vring, 'order': il,
                     'ipset_fault': True}))
    return subs


def budget(tier, name):
    return 400.0 if tier == 'quick' else 1500.0


class _NetClient:
    def __init__(self, table):
        self.table = table

    def get(self, name):
        return self.table.get(name)

    def delete(self, name):
        self.table[name] = None


def _obj(d):
    from treadmill import utils
    return utils.to_obj(d)


def _manifest(name, uid, vip, endpoints, eph_tcp, eph_udp, passthrough, vring):
    return {
        'name': name, 'uniqueid': uid, 'vring': {'some': 'cfg'} if vring
        else None, 'shared_ip': False, 'shared_network': False,
        'endpoints': endpoints,
        'ephemeral_ports': {'tcp': eph_tcp, 'udp': eph_udp},
        'passthrough': passthrough,
        'network': {'vip': vip, 'external_ip': '10.0.0.1', 'veth': 'veth0',
                    'gateway': '192.168.0.254'},
    }


def harness(S, spec):
    import logging
    logging.disable(logging.CRITICAL)
    from treadmill import endpoints, rulefile, iptables
    from treadmill.runtime.linux import _run, _finish
    root = fsx.fresh()
    for n in ('rules', 'endpoints', 'apps'):
        os.makedirs(os.path.join(root, n))

    class _Env:
        pass
    env = _Env()
    env.apps_dir = os.path.join(root, 'apps')
    env.rules = rulefile.RuleMgr(os.path.join(root, 'rules'),
                                 os.path.join(root, 'apps'))
    env.endpoints = endpoints.EndpointsMgr(os.path.join(root, 'endpoints'))
    ipsets = {}

    def add_ip_set(target, ip):
        ipsets.setdefault(target, set()).add(ip)

    fault_at = S.int('failing_ipset_removal', 0, 12) \
        if spec.get('ipset_fault') else None
    nrm = [0]

    def rm_ip_set(target, ip):
        if fault_at is not None:
            hit = nrm[0] == fault_at
            nrm[0] += 1
            if hit:
                import subprocess
                raise subprocess.CalledProcessError(1, 'ipset del')
        ipsets.setdefault(target, set()).discard(ip)     # ipset -exist del

    for mod in (_run, _finish):
        mod.iptables.add_ip_set = add_ip_set
        mod.iptables.rm_ip_set = rm_ip_set
        mod.iptables.flush_cnt_conntrack_table = lambda *a, **k: None
        mod.socket.gethostbyname = lambda h: HOSTMAP[h]

        class _PM:
            @staticmethod
            def load(*a, **k):
                raise KeyError('no firewall plugin')
        mod.plugin_manager = _PM
    _run.newnet.create_newnet = lambda *a, **k: None
    # directory listing order is file-system dependent: make it a choice
    # (sorted / reverse sorted) so that replays see the same order
    import glob as _glob
    rev = bool(spec['order'] & 1)      # both orders occur across the interleavings

    class _Glob:
        @staticmethod
        def glob(pattern, *a, **k):
            return sorted(_glob.glob(pattern, *a, **k), reverse=rev)

        def __getattr__(self, n):
            return getattr(_glob, n)
    endpoints.glob = _Glob()
    # ---- container A: symbolic manifest shape
    eps = []
    used = set()
    for i in range(spec['nep']):
        proto = ('tcp', 'udp')[S.choice('ep%d_proto' % i, 2)] if i == 0 \
            else 'udp'
        infra = S.flag('ep%d_infra' % i)
        same = S.flag('ep%d_port_equals_real_port' % i)
        real = 5000 + i
        port = real if same else (22 if i == 0 else 8125)
        e = {'name': 'ep%d' % i, 'proto': proto, 'port': port,
             'real_port': real}
        if infra:
            e['type'] = 'infra'
        eps.append(e)
    eph_tcp = [6000 + k for k in range(S.choice('ephemeral_tcp', 3))]
    eph_udp = [6100 + k for k in range(S.choice('ephemeral_udp', 2))]
    hosts = ['gw1.example.com', 'gw2.example.com',
             'alias.example.com'][:spec['npass']]
    man_a = _manifest('proid.app#0000000001', 'aaaaaaaaaaaaa', '192.168.0.2',
                      eps, eph_tcp, eph_udp, hosts, spec['vring'])
    # ---- container B: fixed, overlapping names / ports / hosts on purpose;
    # in the retry interleavings (4, 5) it starts after A released its
    # address and is given the same one (VipMgr hands out the first free)
    VIP_B = '192.168.0.2' if spec['order'] >= 4 else '192.168.0.3'
    b_same_instance = S.flag('b_is_newer_container_of_same_instance')
    man_b = _manifest(
        'proid.app#0000000001' if b_same_instance else 'proid.app#0000000002',
        'bbbbbbbbbbbbb', VIP_B,
        [{'name': 'ep0', 'proto': 'tcp', 'port': 22, 'real_port': 5010,
          'type': 'infra'},
         {'name': 'ep1', 'proto': 'udp', 'port': 8125, 'real_port': 5011}],
        [6010], [], ['gw1.example.com'], True)
    apps = {'A': _obj(man_a), 'B': _obj(man_b)}
    nets = {}
    for k, m in (('A', man_a), ('B', man_b)):
        un = '%s-%s' % (m['name'].replace('#', '-'), m['uniqueid'])
        nets[un] = dict(m['network'])
        os.makedirs(os.path.join(env.apps_dir, un))
    client = _NetClient(nets)

    def snapshot():
        return (fsx.links(env.rules.path), fsx.links(env.endpoints.path),
                {k: sorted(v) for k, v in ipsets.items() if v})

    def owned_by(un, vip):
        r, e, sets = snapshot()
        return ({n: t for n, t in r.items() if t == un},
                {n: t for n, t in e.items() if t == un},
                {k: [x for x in v if x.split(',')[0] == vip]
                 for k, v in sets.items()})

    un_b = '%s-%s' % (man_b['name'].replace('#', '-'), man_b['uniqueid'])
    initial = snapshot()
    order = ('sA sB fA fA fB', 'sB sA fA fB fA', 'sA fA sB fB',
             'sA sB fB fA', 'sA fA sB fA fB',
             'sA fA sB fA fA fB')[spec['order']].split()
    b_running = False
    for op in order:
        who = op[1]
        if op[0] == 's':
            _run._unshare_network(env, os.path.join(root, 'c' + who),
                                  apps[who])
            if who == 'B':
                b_running = True
        else:
            before_b = owned_by(un_b, VIP_B)
            import subprocess
            try:
                _finish._cleanup_network(env, os.path.join(root, 'c' + who),
                                         apps[who], client)
            except subprocess.CalledProcessError:
                # the finish failed half-way; it is run again
                S.reach('finish_failed_midway')
                _finish._cleanup_network(env, os.path.join(root, 'c' + who),
                                         apps[who], client)
            if who == 'B':
                b_running = False
            elif b_running:
                S.reach('finish_while_other_runs')
                S.check('C16:finish_removed_an_entry_of_another_container',
                        owned_by(un_b, VIP_B) == before_b,
                        {'before': before_b,
                         'after': owned_by(un_b, VIP_B)})
    S.reach('ran')
    if spec.get('ipset_fault'):
        S.assume(nrm[0] > fault_at)       # the failing call was reached
    final = snapshot()
    S.check('C16:host_state_not_restored_after_all_containers_finished',
            final == initial, {'left': final})


TWINS = ['ep1-pass1-vring-order0']

META = {
    'functions_encoded': [
        'runtime.linux._run._unshare_network',
        'runtime.linux._finish._cleanup_network',
        '_finish._cleanup_ephemeral_ports', 'rulefile.RuleMgr.create_rule / '
        'unlink_rule', 'endpoints.EndpointsMgr.create_spec / unlink_all',
        'appcfg.app_unique_name', 'firewall.DNATRule / SNATRule / '
        'PassThroughRule'],
    'reach_required': ['ran', 'finish_while_other_runs',
                       'finish_failed_midway'],
}
