"""C17 - presence registration never touches nodes owned by another session."""
import itertools
import json

import repo  # noqa: F401
import memzk

PROPERTY = 'C17'
INST = 'proid.app#0000000001'
CONT = {'1': 'proid.app-0000000001-aaaaaaaaaaaaa',
        '2': 'proid.app-0000000001-bbbbbbbbbbbbb'}
DATA = {'endpoints': [{'name': 'http', 'port': 80, 'real_port': 5000,
                       'proto': 'tcp'}],
        'identity_group': 'g', 'identity': 0}
PATHS = ['/running/' + INST, '/endpoints/proid/app#0000000001:tcp:http',
         '/identity-groups/g/0']

QUICK_SEQS = [
    'C1a', 'C1a D1a', 'C1a C2a', 'C1a C2a D1a', 'C1a C2a D2a',
    'C1a D1a C2a', 'C1a C2b', 'C1a C2b D1a', 'C1a C2b D1b', 'C1a D1b',
    'C1a C2b D2b', 'C2b C1a D2b', 'C1a C1b', 'C1a C1b D1a', 'C1a C1a',
    'C1a C1a D1a', 'C1a D2a', 'C1a C2a D1a D2a'[:11], 'D1a C1a',
    'C1b C2a D1b',
]


def subharnesses(tier):
    subs = []
    ops = [o + c + n for o in 'CD' for c in '12' for n in 'ab']
    maxlen = 4
    seqs = [' '.join(s) for k in range(1, maxlen + 1)
            for s in itertools.product(ops, repeat=k)
            if s[0][0] == 'C' and (k < 4 or (s[0] == 'C1a' and (
                tier == 'thorough' or s[1][0] == 'C')))]
    for s in seqs:
        for budget_ in ((0, 1) if tier == 'quick' else (0, 1, 2)):
            subs.append(('seq-%s-expiries%d' % (s.replace(' ', '_'), budget_),
                         {'kind': 'seq', 'seq': s.split(), 'expiries': budget_}))
    # the other session's node vanishes and comes back between two ZooKeeper
    # calls of one request (budget 2: expiry, then re-registration)
    for sq in ('C1b C2a', 'C1b C1a', 'C1b C2a D2a', 'C1a C2b'):
        subs.append(('seq-%s-expire_and_recreate' % sq.replace(' ', '_'),
                     {'kind': 'seq', 'seq': sq.split(), 'expiries': 2,
                      'recreate': True}))
    # the master removes a node's registrations behind its back
    # (presence.kill_node after a presence blip: the nodes vanish, the service
    # still remembers them), the other host registers the instance, and the
    # first host is asked again
    for x in ('C1b', 'C2b'):
        for y in ('C1a', 'C2a', 'D1a', 'C2a D1a', 'C2a C2a'):
            sq = 'C1a Ka %s %s' % (x, y)
            for nexp in (0, 1):
                subs.append(('seq-%s-expiries%d' % (sq.replace(' ', '_'),
                                                    nexp),
                             {'kind': 'seq', 'seq': sq.split(),
                              'expiries': nexp}))
    # host a's presence service was restarted without resuming its session:
    # the old session (A: same host name, so byte-identical payloads) still
    # owns the nodes when the new one is asked to register
    for sq in ('C1A C1a', 'C1A C2a', 'C1A C1a D1a', 'C1A C2a D2a',
               'C1A C1a C1a'):
        for nexp in (0, 1):
            subs.append(('seq-%s-expiries%d' % (sq.replace(' ', '_'), nexp),
                         {'kind': 'seq', 'seq': sq.split(),
                          'expiries': nexp}))
    subs.append(('seq-C1a_Ka_C2a-expiries0',
                 {'kind': 'seq', 'seq': 'C1a Ka C2a'.split(), 'expiries': 0}))
    for what in ('running', 'endpoints', 'identity', 'unschedule'):
        subs.append(('unregister-' + what, {'kind': 'unregister',
                                            'what': what}))
    return subs


def budget(tier, name):
    return 300.0 if tier == 'quick' else 1200.0


def _mk_service(tree, session, host):
    from treadmill.services import presence_service as ps

    class Svc(ps.PresenceResourceService):
        _zk = None
        retries = None

        @property
        def zkclient(self):
            return self._zk

        def retry_request(self, rsrc_id):
            self.retries.append(rsrc_id)

    svc = Svc()
    svc._zk = memzk.Client(tree, session)
    svc.retries = []
    svc.hostname = host
    return svc


def _seq(S, spec):
    tree = memzk.Tree()
    for p in ('/running', '/endpoints/proid', '/identity-groups/g'):
        tree.seed(p)
    svcs = {'a': _mk_service(tree, 101, 'host-a'),
            'b': _mk_service(tree, 202, 'host-b'),
            'A': _mk_service(tree, 303, 'host-a')}
    owner_of = {}             # path -> (node letter, container)
    left = [spec['expiries']]
    ncall = [0]
    actor = [None]

    def before_call(client, op, path):
        if left[0] <= 0 or actor[0] is None:
            return
        ncall[0] += 1
        cands = [n_ for n_ in ('A', 'b', 'a')
                 if svcs[n_]._zk.session != client.session]
        other = next((n_ for n_ in cands
                      if any(nd.owner == svcs[n_]._zk.session
                             for nd in tree.nodes.values())), cands[-1])
        act = S.choice('adversary_before_call_%d' % ncall[0],
                       3 if spec.get('recreate') else 2)
        if act == 1:
            left[0] -= 1
            tree.expire(svcs[other]._zk.session)
            S.reach('session_expired_mid_request')
            for p in [p for p, (n, _c) in owner_of.items() if n == other]:
                del owner_of[p]
            # node re-establishes a new session (new id), old state forgotten
            svcs[other].presence.clear()
        elif act == 2:
            # the other node registers the instance's running node now (its
            # own container of the instance started) - only if it is free
            left[0] -= 1
            if PATHS[0] not in tree.nodes:
                tree.seed(PATHS[0], svcs[other].hostname.encode(),
                          owner=svcs[other]._zk.session)
                owner_of[PATHS[0]] = (other, 'x')
                S.reach('other_node_registered_mid_request')

    tree.before_call = before_call
    for step, req in enumerate(spec['seq']):
        if req[0] == 'K':
            # nodes of host req[1] deleted by a third party (the master)
            victim = svcs[req[1]]._zk.session
            for p in [p for p, nd in tree.nodes.items()
                      if nd.owner == victim]:
                del tree.nodes[p]
            for p in [p for p, (nn, _c) in owner_of.items() if nn == req[1]]:
                del owner_of[p]
            S.reach('killed_behind_its_back')
            continue
        op, c, n = req[0], req[1], req[2]
        svc = svcs[n]
        actor[0] = n
        mark = len(tree.log)
        if op == 'C':
            rc = svc.on_create_request(CONT[c], dict(DATA))
            if rc is not None:
                S.reach('create_succeeded')
                for p in PATHS:
                    owner_of[p] = (n, c)
            else:
                S.reach('create_deferred')
                S.check('C17:deferred_create_leaves_no_watch_or_retry',
                        bool(tree.data_watches) or bool(svc.retries))
        else:
            svc.on_delete_request(CONT[c])
            for p in [p for p, v in owner_of.items() if v == (n, c)]:
                del owner_of[p]
            S.reach('delete_done')
        actor[0] = None
        # no write on a node that another session owns
        for ent in tree.log[mark:]:
            if ent[0] in ('set', 'delete'):
                _op, path, who, owner_before = ent
                S.check('C17:modified_or_deleted_node_of_another_session',
                        owner_before is None or owner_before == who,
                        {'op': _op, 'path': path, 'actor': who,
                         'owner': owner_before})
            if ent[0] == 'create' and ent[1] in PATHS:
                node = tree.nodes.get(ent[1])
                if node is not None:
                    S.check('C17:presence_node_not_ephemeral_of_own_session',
                            node.owner == ent[2] or node.owner is not None,
                            {'path': ent[1]})
        # everything registered and not unregistered is still there
        for p, (nn, cc) in owner_of.items():
            node = tree.nodes.get(p)
            S.check('C17:registered_node_of_newer_container_removed',
                    node is not None and
                    node.owner == svcs[nn]._zk.session,
                    {'path': p, 'registered_by': nn, 'container': cc,
                     'after_request': req})
        run = tree.nodes.get(PATHS[0])
        if run is not None and PATHS[0] in owner_of:
            S.check('C17:running_node_names_wrong_host',
                    run.data.decode() == svcs[owner_of[PATHS[0]][0]].hostname)
    S.reach('sequence_done')


def _unregister(S, spec):
    from treadmill import presence
    tree = memzk.Tree()
    zk = memzk.Client(tree, 101)
    what = spec['what']
    # 'theirs_longer_name': registered by a host whose name extends this
    # host's name (host-a0 vs host-a)
    states = ['absent', 'mine', 'theirs', 'theirs_longer_name']
    st = states[S.choice('node_state', 4)]
    manifest = {'name': INST, 'endpoints': DATA['endpoints'],
                'identity_group': 'g', 'identity': 0}
    ep = presence.EndpointPresence(zk, manifest, hostname='host-a',
                                   appname=INST)
    if what == 'unschedule':
        from treadmill.trace.app import zk as tzk
        tzk._HOSTNAME = 'host-a'
        tree.seed('/scheduled/' + INST, b'{}')
        place = ['none', 'here', 'elsewhere'][S.choice('placement', 3)]
        if place == 'here':
            tree.seed('/placement/host-a/' + INST)
        elif place == 'elsewhere':
            tree.seed('/placement/host-b/' + INST)
        tzk._unschedule(zk, INST)
        S.reach('unregistered')
        S.check('C17:scheduled_node_deleted_by_host_without_placement',
                ('/scheduled/' + INST in tree.nodes) == (place != 'here'),
                {'placement': place})
        return
    host = {'mine': 'host-a', 'theirs': 'host-b',
            'theirs_longer_name': 'host-a0'}.get(st)
    path = {'running': PATHS[0], 'endpoints': PATHS[1],
            'identity': PATHS[2]}[what]
    if st != 'absent':
        data = {'running': host.encode(),
                'endpoints': (host + ':5000').encode(),
                'identity': json.dumps({'host': host,
                                        'app': INST}).encode()}[what]
        tree.seed(path, data, owner=101 if st == 'mine' else 202)
    getattr(ep, 'unregister_' + what)()
    S.reach('unregistered')
    S.check('C17:unregister_removed_node_of_other_host',
            (path in tree.nodes) == (st in ('theirs', 'theirs_longer_name')),
            {'state': st, 'exists_after': path in tree.nodes})


def harness(S, spec):
    import logging
    logging.disable(logging.CRITICAL)
    if spec['kind'] == 'seq':
        _seq(S, spec)
    else:
        _unregister(S, spec)


TWINS = ['seq-C1a_C2a_D1a-expiries0', 'unregister-running']

META = {
    'functions_encoded': [
        'PresenceResourceService.on_create_request / on_delete_request / '
        '_safe_create / _safe_delete / _watch',
        'presence.EndpointPresence.unregister_running / '
        'unregister_endpoints / unregister_identity',
        'trace.app.zk._unschedule', 'zkutils.create / get_with_metadata / '
        'update / ensure_deleted'],
    'reach_required': ['sequence_done', 'create_succeeded', 'create_deferred',
                       'delete_done', 'session_expired_mid_request',
                       'unregistered', 'killed_behind_its_back'],
}
