"""C18 - archiving trace history never loses or prematurely archives events."""
import z3

import repo  # noqa: F401
import memzk

PROPERTY = 'C18'
EXPIRES = 1000
INSTS = ['proid.a#0000000001', 'proid.b#0000000002', 'proid.c#0000000257']
# (instance index, timestamp, rest)
EVENTS = [
    (0, 100, 'host1,scheduled,host1:'),
    (0, 150, 'host1,finished,0.0'),
    (1, 120, 'host2,scheduled,host2:'),
    (1, 5000, 'host2,service_running,uniq.web'),
    (2, 130, 'host1,pending,'),
    (2, 140, 'host1,scheduled,host3:evicted'),
    # thorough tier only
    (0, 160, 'host1,deleted,'),
    (1, 6000, 'host2,service_exited,uniq.web.0.0'),
    (2, 4100, 'host3,configured,uniq'),
]


def _iv(x):
    """Integer view of a time value (concrete timestamps are integral)."""
    if isinstance(x, SymTime):
        return x.v
    if type(x) is float:
        assert x == int(x)
        return int(x)
    return x


class SymTime:
    """An instant in integer seconds; comparisons with the (integral) float
    timestamps parsed from event names stay in integer arithmetic."""
    __slots__ = ('v',)

    def __init__(self, v):
        self.v = v

    def __sub__(self, o):
        return SymTime(self.v - _iv(o))

    def __lt__(self, o):
        return self.v < _iv(o)

    def __le__(self, o):
        return self.v <= _iv(o)

    def __gt__(self, o):
        return self.v > _iv(o)

    def __ge__(self, o):
        return self.v >= _iv(o)


import sqlite3
sqlite3.register_adapter(SymTime, lambda t: 0.0)


class _VT:
    now = 0

    def time(self):
        return SymTime(self.now)


VT = _VT()


def subharnesses(tier):
    subs = []
    for bs in (1, 2, 3, 4):
        for sched in range(8):
            for crash in (False, True, 'error'):
                if crash == 'error' and sched not in (0, 2):
                    continue
                subs.append(('trace-batch%d-sched%d-%s' % (
                    bs, sched, {False: 'run', True: 'crash',
                                'error': 'zkerror'}[crash]),
                    {'kind': 'trace', 'batch': bs, 'sched': sched,
                     'crash': crash}))
    if tier == 'thorough':
        # nine events, larger batches, every scheduled / finished combination
        for bs in (1, 2, 3, 5, 7):
            for sched in range(8):
                for fin in (0, 7, sched ^ 7):
                    for crash in (False, True):
                        subs.append(('trace9-batch%d-sched%d-fin%d-%s' % (
                            bs, sched, fin, 'crash' if crash else 'run'),
                            {'kind': 'trace', 'batch': bs, 'sched': sched,
                             'fin': fin, 'crash': crash, 'nev': 9}))
        for bs in (1, 2, 3):
            subs.append(('finished-batch%d-two_passes-crash' % bs,
                         {'kind': 'finished', 'batch': bs, 'crash': True,
                          'passes': 2}))
    # instances that have a record under /finished (a stale terminal event
    # from a node that lost the placement) and are still scheduled
    for bs in (1, 2, 4):
        for sched in (1, 2, 5, 7):
            for fin in (7, sched):
                subs.append(('trace-batch%d-sched%d-fin%d-run' % (bs, sched,
                                                                  fin),
                             {'kind': 'trace', 'batch': bs, 'sched': sched,
                              'fin': fin, 'crash': False}))
    for bs in (1, 2, 3):
        for crash in (False, True):
            subs.append(('finished-batch%d-%s' % (bs, 'crash' if crash
                                                  else 'run'),
                         {'kind': 'finished', 'batch': bs, 'crash': crash}))
    # the archiver is one long-lived process: two passes, a finished record
    # rewritten in between (publish() re-puts /finished/<instance> on every
    # terminal event)
    for bs in (1, 2, 3):
        subs.append(('finished-batch%d-two_passes' % bs,
                     {'kind': 'finished', 'batch': bs, 'crash': False,
                      'passes': 2}))
    # one pass of the archiver's own loop (sproc trace cleanup): the options
    # must reach the functions they are meant for (different expiries and
    # batch sizes for trace events and finished records)
    for tb, fb in ((1, 1), (2, 1), (1, 2), (3, 3)):
        for sched in (0, 2, 5):
            subs.append(('sproc-tb%d-fb%d-sched%d' % (tb, fb, sched),
                         {'kind': 'sproc', 'trace_batch': tb,
                          'finished_batch': fb, 'sched': sched}))
    for n in (0, 1, 3, 4, 5):
        subs.append(('prune-%d' % n, {'kind': 'prune', 'n': n}))
    for bs in (1, 2, 3, 4, 6):
        for crash in (False, True):
            subs.append(('server-trace-batch%d-%s' % (bs, 'crash' if crash
                                                      else 'run'),
                         {'kind': 'server', 'batch': bs, 'crash': crash}))
    return subs


def budget(tier, name):
    return 300.0 if tier == 'quick' else 1200.0


def _shard(inst):
    return '%04X' % (int(inst[inst.find('#') + 1:]) % 256)


def _run_with_crash(S, tree, fn, crash):
    """crash: False | True (process stops before write k) | 'error' (write k
    fails with a ZooKeeper error; the archiver may handle it or die)."""
    import kazoo.exceptions as kx
    if crash:
        tree.crash_at = S.int('crash_before_write', 0, 30)
        tree.fault = 'error' if crash == 'error' else 'crash'
        tree.armed = True
    try:
        fn()
        if crash:
            hit = any(e[0] == 'CRASH-BEFORE' for e in tree.log)
            tree.armed = False
            S.assume(hit)         # index beyond the writes of this run
            S.reach('write_error_survived')
    except memzk.Crash:
        tree.armed = False
        S.reach('crashed')
    except kx.KazooException:
        tree.armed = False
        S.reach('write_error_propagated')
    tree.armed = False


def _fresh_modules():
    """Module-level state (a cache that outlives one archiver pass) must not
    leak from one explored path into the next: the modules are re-executed at
    the start of every path."""
    import importlib
    from treadmill.trace import _zk
    from treadmill.trace.app import zk as tzk
    _zk = importlib.reload(_zk)
    tzk = importlib.reload(tzk)
    return _zk, tzk


def _trace(S, spec):
    _zk, tzk = _fresh_modules()
    tzk.time = VT
    VT.now = S.int('now', 0, 10000)
    tree = memzk.Tree()
    zk = memzk.Client(tree, 1)
    for p in ('/scheduled', '/trace', '/trace.history', '/finished'):
        tree.seed(p)
    scheduled = [i for i in range(3) if spec['sched'] & (1 << i)]
    for i in scheduled:
        tree.seed('/scheduled/' + INSTS[i], b'{}')
    for i in range(3):
        if spec.get('fin', 0) & (1 << i):
            tree.seed('/finished/' + INSTS[i], b'{"state": "finished"}')
            if i in scheduled:
                S.reach('scheduled_and_finished')
    pre = {}
    for (i, ts, rest) in EVENTS[:spec.get('nev', 6)]:
        name = '%s,%s,%s' % (INSTS[i], ts, rest)
        path = '/trace/%s/%s' % (_shard(INSTS[i]), name)
        tree.seed(path, b'')
        pre[path] = (i, ts, name)
    _run_with_crash(S, tree,
                    lambda: tzk.cleanup_trace(zk, spec['batch'], EXPIRES),
                    spec['crash'])
    S.reach('archived')
    snaps = tree.children('/trace.history')
    archived = {}
    for sn in snaps:
        for inst in INSTS:
            for ev in _zk.download_batch(zk, '/trace.history/' + sn, 'trace',
                                         inst):
                archived.setdefault(ev, []).append(sn)
    if snaps:
        S.reach('snapshot_written')
    for path, (i, ts, name) in pre.items():
        live = path in tree.nodes
        S.check('C18:event_neither_live_nor_in_a_snapshot',
                live or name in archived, {'event': name})
        if not live:
            S.reach('event_archived')
            S.check('C18:event_of_scheduled_instance_archived',
                    i not in scheduled, {'event': name})
            S.check('C18:event_younger_than_expiry_archived',
                    S.z(ts) < S.z(VT.now) - EXPIRES, {'event': name})


def _finished(S, spec):
    _zk, tzk = _fresh_modules()
    tzk.time = VT
    VT.now = S.int('now', 0, 10000)
    tree = memzk.Tree()
    zk = memzk.Client(tree, 1)
    for p in ('/finished', '/finished.history'):
        tree.seed(p)
    pre = {}
    for k, inst in enumerate(INSTS):
        mt = S.int('finished_mtime_%d' % k, 0, 10000)
        n = tree.seed('/finished/' + inst, b'{"state": "finished"}', ctime=mt)
        n.mtime = SymTime(mt)
        pre['/finished/' + inst] = (inst, mt)
    _run_with_crash(S, tree,
                    lambda: tzk.cleanup_finished(zk, spec['batch'], EXPIRES),
                    spec['crash'])
    content = {inst: '{"state": "finished"}' for inst in INSTS}
    if spec.get('passes') == 2:
        # between the passes one record that is still live is rewritten (new
        # content, new modification time), then time moves on
        k = S.choice('rewritten_record', len(INSTS))
        inst = INSTS[k]
        if '/finished/' + inst in tree.nodes:
            mt2 = S.int('rewritten_mtime', 0, 20000)
            S.require(S.z(mt2) >= S.z(pre['/finished/' + inst][1]))
            S.require(S.z(mt2) <= S.z(VT.now) + 5000)
            node = tree.nodes['/finished/' + inst]
            node.data = b'{"state": "finished", "when": 2}'
            node.mtime = SymTime(mt2)
            content[inst] = '{"state": "finished", "when": 2}'
            pre['/finished/' + inst] = (inst, mt2)
            S.reach('rewritten_between_passes')
        now2 = S.int('now2', 0, 30000)
        S.require(S.z(now2) >= S.z(VT.now))
        VT.now = now2
        tzk.cleanup_finished(zk, spec['batch'], EXPIRES)
        S.reach('second_pass')
    S.reach('archived')
    import sqlite3, tempfile, zlib, os
    archived = set()
    archived_content = {}
    for sn in tree.children('/finished.history'):
        data = tree.nodes['/finished.history/' + sn].data
        with tempfile.NamedTemporaryFile(delete=False, mode='wb') as f:
            f.write(zlib.decompress(data))
        conn = sqlite3.connect(f.name)
        for row in conn.execute('SELECT name, data FROM finished'):
            archived.add(row[0])
            archived_content.setdefault(row[0], []).append(row[1])
        conn.close()
        os.unlink(f.name)
    for path, (inst, mt) in pre.items():
        live = path in tree.nodes
        S.check('C18:finished_record_neither_live_nor_in_a_snapshot',
                live or inst in archived, {'instance': inst})
        if not live and inst in archived:
            S.check('C18:archived_finished_record_has_stale_content',
                    content[inst] in archived_content[inst],
                    {'instance': inst, 'archived': archived_content[inst],
                     'latest': content[inst]})
        if not live:
            S.reach('event_archived')
            S.check('C18:finished_record_younger_than_expiry_archived',
                    S.z(mt) < S.z(VT.now) - EXPIRES, {'instance': inst})


FIN_EXPIRES = 3000


class _StopLoop(Exception):
    pass


def _sproc(S, spec):
    _zk, tzk = _fresh_modules()
    import importlib
    import sqlite3, tempfile, zlib, os
    from treadmill.sproc import trace as st
    st = importlib.reload(st)
    tzk.time = VT
    VT.now = S.int('now', 0, 10000)
    tree = memzk.Tree()
    zk = memzk.Client(tree, 1)
    for p in ('/scheduled', '/trace', '/trace.history', '/finished',
              '/finished.history', '/server-trace', '/server-trace.history'):
        tree.seed(p)
    scheduled = [i for i in range(3) if spec['sched'] & (1 << i)]
    for i in scheduled:
        tree.seed('/scheduled/' + INSTS[i], b'{}')
    pre_ev = {}
    for (i, ts, rest) in EVENTS[:6]:
        name = '%s,%s,%s' % (INSTS[i], ts, rest)
        path = '/trace/%s/%s' % (_shard(INSTS[i]), name)
        tree.seed(path, b'')
        pre_ev[path] = (i, ts, name)
    pre_fin = {}
    for k, inst in enumerate(INSTS):
        mt = S.int('finished_mtime_%d' % k, 0, 10000)
        n = tree.seed('/finished/' + inst, b'{"state": "finished"}', ctime=mt)
        n.mtime = SymTime(mt)
        pre_fin['/finished/' + inst] = (inst, mt)

    class _Time:
        time = VT.time

        @staticmethod
        def sleep(_n):
            raise _StopLoop()
    st.time = _Time

    class _Ctx:
        class GLOBAL:
            class zk_:
                conn = zk
    _Ctx.GLOBAL.zk = _Ctx.GLOBAL.zk_
    st.context = _Ctx
    cmd = st.init().commands['cleanup']
    try:
        cmd.callback(interval=60, trace_evictions_max_count=10,
                     trace_service_events_max_count=10,
                     trace_batch_size=spec['trace_batch'],
                     trace_expire_after=EXPIRES, trace_history_max_count=50,
                     finished_batch_size=spec['finished_batch'],
                     finished_expire_after=FIN_EXPIRES,
                     finished_history_max_count=50, no_lock=True)
    except _StopLoop:
        pass
    S.reach('archived')
    S.reach('archiver_loop_ran')
    archived = {}
    for sn in tree.children('/trace.history'):
        for inst in INSTS:
            for ev in _zk.download_batch(zk, '/trace.history/' + sn, 'trace',
                                         inst):
                archived.setdefault(ev, []).append(sn)
    for path, (i, ts, name) in pre_ev.items():
        live = path in tree.nodes
        S.check('C18:event_neither_live_nor_in_a_snapshot',
                live or name in archived, {'event': name})
        if not live:
            S.reach('event_archived')
            S.check('C18:event_of_scheduled_instance_archived',
                    i not in scheduled, {'event': name})
            S.check('C18:event_younger_than_expiry_archived',
                    S.z(ts) < S.z(VT.now) - EXPIRES, {'event': name})
    fin_arch = set()
    for sn in tree.children('/finished.history'):
        data = tree.nodes['/finished.history/' + sn].data
        with tempfile.NamedTemporaryFile(delete=False, mode='wb') as f:
            f.write(zlib.decompress(data))
        conn = sqlite3.connect(f.name)
        for row in conn.execute('SELECT name FROM finished'):
            fin_arch.add(row[0])
        conn.close()
        os.unlink(f.name)
    for path, (inst, mt) in pre_fin.items():
        live = path in tree.nodes
        S.check('C18:finished_record_neither_live_nor_in_a_snapshot',
                live or inst in fin_arch, {'instance': inst})
        if not live:
            S.reach('finished_record_archived')
            S.check('C18:finished_record_younger_than_expiry_archived',
                    S.z(mt) < S.z(VT.now) - FIN_EXPIRES, {'instance': inst})
        else:
            # nothing older than the expiry stays behind once a full batch of
            # expired records exists (batch size 1: every expired one goes)
            if spec['finished_batch'] == 1:
                S.check('C18:expired_finished_record_not_archived',
                        z3.Not(S.z(mt) < S.z(VT.now) - FIN_EXPIRES),
                        {'instance': inst})


SRV_EVENTS = [('host1', 100, 'm,server_state,up'),
              ('host1', 300, 'm,server_state,down'),
              ('host2', 200, 'm,server_blackout,'),
              ('host2', 250, 'm,server_blackout_cleared,'),
              ('host3', 50, 'm,server_state,frozen')]


def _server(S, spec):
    """cleanup_server_trace archives whole batches, oldest first; every event
    stays live or retrievable, also when the archiver stops at any write."""
    import zlib, sqlite3, tempfile, os
    from treadmill.trace.server import zk as szk
    tree = memzk.Tree()
    zk = memzk.Client(tree, 1)
    for p in ('/server-trace', '/server-trace.history'):
        tree.seed(p)
    pre = {}
    order = list(range(len(SRV_EVENTS)))
    for k in order:
        host, ts, rest = SRV_EVENTS[k]
        shard = '%04X' % (sum(map(ord, host)) % 256)
        name = '%s,%s,%s' % (host, ts, rest)
        path = '/server-trace/%s/%s' % (shard, name)
        tree.seed(path, b'')
        pre[path] = (ts, name)
    _run_with_crash(S, tree,
                    lambda: szk.cleanup_server_trace(zk, spec['batch']),
                    spec['crash'])
    S.reach('archived')
    archived = set()
    for sn in tree.children('/server-trace.history'):
        data = tree.nodes['/server-trace.history/' + sn].data
        with tempfile.NamedTemporaryFile(delete=False, mode='wb') as f:
            f.write(zlib.decompress(data))
        conn = sqlite3.connect(f.name)
        for row in conn.execute('SELECT name FROM %s' %
                                szk.SERVER_TRACE_SOW_TABLE):
            archived.add(row[0])
        conn.close()
        os.unlink(f.name)
        S.reach('snapshot_written')
    live_ts = []
    gone_ts = []
    for path, (ts, name) in pre.items():
        live = path in tree.nodes
        S.check('C18:server_event_neither_live_nor_in_a_snapshot',
                live or name in archived, {'event': name})
        (live_ts if live else gone_ts).append(ts)
        if not live:
            S.reach('event_archived')
    if not spec['crash']:
        # oldest first, whole batches only
        S.check('C18:server_trace_archived_out_of_order',
                not gone_ts or not live_ts or max(gone_ts) < min(live_ts),
                {'archived': sorted(gone_ts), 'live': sorted(live_ts)})
        S.check('C18:server_trace_partial_batch_archived',
                len(gone_ts) % spec['batch'] == 0 and
                len(live_ts) < spec['batch'],
                {'archived': len(gone_ts), 'live': len(live_ts)})


def _prune(S, spec):
    from treadmill.trace.app import zk as tzk
    tree = memzk.Tree()
    zk = memzk.Client(tree, 1)
    tree.seed('/trace.history')
    tree.seed('/finished.history')
    n = spec['n']
    names = ['trace.db.gzip-%010d' % k for k in range(n)]
    for nm in names:
        tree.seed('/trace.history/' + nm, b'x')
        tree.seed('/finished.history/' + nm, b'x')
    mc = S.choice('max_count', 8)
    tzk.cleanup_trace_history(zk, mc)
    tzk.cleanup_finished_history(zk, mc)
    S.reach('pruned')
    keep = names[max(0, n - mc):] if mc > 0 else []
    S.check('C18:pruning_does_not_keep_exactly_the_newest_snapshots',
            tree.children('/trace.history') == keep,
            {'kept': tree.children('/trace.history'), 'expected': keep,
             'max_count': mc})
    S.check('C18:pruning_finished_history_wrong',
            tree.children('/finished.history') == keep)


def harness(S, spec):
    import logging
    logging.disable(logging.CRITICAL)
    {'trace': _trace, 'finished': _finished, 'prune': _prune,
     'server': _server, 'sproc': _sproc}[spec['kind']](
        S, spec)


TWINS = ['trace-batch2-sched0-run', 'prune-4']

META = {
    'functions_encoded': [
        'sproc.trace cleanup (the archiver loop and its option wiring)',
        'trace.app.zk.cleanup_trace', 'trace.app.zk.cleanup_finished',
        'trace.app.zk.cleanup_trace_history / cleanup_finished_history',
        'trace._zk.upload_batch', 'trace._zk.download_batch',
        'trace._zk.cleanup', 'trace.server.zk.cleanup_server_trace',
        'zkutils.create / ensure_deleted / with_retry'],
    'reach_required': ['archived', 'snapshot_written', 'event_archived',
                       'crashed', 'pruned', 'scheduled_and_finished'],
}
