"""C19 - accepted reservations never exceed partition capacity or trait limits."""
import z3

import repo  # noqa: F401
import symx

PROPERTY = 'C19'
BIG = 2 ** 40
TRAITS = ['t1', 't2']
_ORIG = {}


def _install(S):
    from treadmill import utils
    from treadmill.api import allocation as A
    symx.pristine_globals(A)     # no memo / cache from an earlier path
    if not _ORIG:
        _ORIG['cpu_units'] = utils.cpu_units

    orig = _ORIG['cpu_units']

    def cpu_units(value):
        """int(str(n)) == n: integers (solver variables) pass through, strings
        go to the real parser."""
        if isinstance(value, str):
            return orig(value)
        return value

    if S.concrete:
        utils.cpu_units = orig
    else:
        utils.cpu_units = cpu_units
    return A, utils


class _Fake:
    def __init__(self, lst=None, part=None, missing=False):
        self.lst, self.part, self.missing = lst, part, missing

    def list(self, _attrs):
        return self.lst

    def get(self, _key):
        if self.missing:
            from treadmill.admin import exc as admin_exceptions
            raise admin_exceptions.NoSuchObjectResult()
        # a real admin object builds a new dictionary from LDAP on every get
        import copy
        from crosshair.tracers import NoTracing
        with NoTracing():
            return copy.copy(self.part) if not isinstance(self.part, dict) \
                else {k: (list(v) if isinstance(v, list) else v)
                      for k, v in self.part.items()}


def subharnesses(tier):
    subs = []
    ns = (0, 1, 2) if tier == 'quick' else (0, 1, 2, 3)
    for n in ns:
        for nlim in (0, 1, 2):
            for replaced in ([None] + ([0] if n else [])):
                for spelled in (False, True):
                    if spelled and (n > 1 and tier == 'quick' and nlim == 2):
                        continue
                    subs.append(('n%d-lim%d-repl%s-%s' % (
                        n, nlim, replaced, 'spelled' if spelled else 'ints'),
                        {'n': n, 'nlim': nlim, 'replaced': replaced,
                         'spelled': spelled}))
    for n in (1, 2):
        subs.append(('n%d-limit_on_second_trait-ints' % n,
                     {'n': n, 'nlim': 1, 'replaced': None, 'spelled': False,
                      'limit_second_only': True}))
    subs.append(('no-partition', {'n': 1, 'nlim': 0, 'replaced': None,
                                  'spelled': False, 'missing': True}))
    # the public entry points: API().reservation.create / update (schema
    # validation, defaults, the admin calls that follow an accepted request)
    for verb in ('create', 'update'):
        for n in (0, 1, 2):
            for nlim in (0, 1):
                subs.append(('api-%s-n%d-lim%d' % (verb, n, nlim),
                             {'kind': 'api', 'verb': verb, 'n': n,
                              'nlim': nlim}))
        # the partition is redefined (shrunk, limit lowered) between two
        # requests handled by the same API process
        for nlim in (0, 1):
            subs.append(('api-%s-n0-lim%d-partition_redefined' % (verb, nlim),
                         {'kind': 'api', 'verb': verb, 'n': 0, 'nlim': nlim,
                          'redefine': True}))
    return subs


def budget(tier, name):
    return 400.0 if tier == 'quick' else 1500.0


SPELL = {
    # field -> list of (render(n) -> str, value(n) in base units)
    'cpu': [lambda n: '%d%%' % n, lambda n: '%d' % n],
    'mem': [lambda n: '%dG' % n, lambda n: '%dM' % (n * 1024)],
}


def _triple(S, prefix, spelled, hi):
    """(stored cpu, stored memory, stored disk), (cpu, memory, disk as
    z3-able numbers in %, bytes, bytes)."""
    if not spelled:
        c = S.int(prefix + '_cpu', 0, hi)
        m = S.int(prefix + '_mem', 0, hi)
        d = S.int(prefix + '_disk', 0, hi)
        return {'cpu': c, 'memory': m, 'disk': d}, (c, m, d)
    # unit spellings: concrete magnitudes per object (the request's are chosen
    # by the solver), rendered in one of two spellings per object; the real
    # parsers run on the strings
    if prefix == 'req':
        c = S.choice('req_cpu', 4) * 50
        m = S.choice('req_memG', 4)
        d = m
    elif prefix == 'part':
        c, m, d = 200, 4, 4
    elif prefix.startswith('limit'):
        c, m, d = 100, 2, 2
    else:
        i = int(prefix[-1])
        c, m, d = 50 * (i + 1), 1, 1 + i
    sp = S.choice(prefix + '_spelling', 2)
    return ({'cpu': SPELL['cpu'][sp](c), 'memory': SPELL['mem'][sp](m),
             'disk': SPELL['mem'][1 - sp](d)},
            (c, m * 2 ** 30, d * 2 ** 30))


class _Admin:
    def __init__(self, lst, stored):
        self.lst, self.stored, self.calls = lst, stored, []

    def list(self, attrs):
        self.calls.append(('list', dict(attrs)))
        return [dict(a) for a in self.lst]

    def get(self, key, dirty=False):
        return dict(self.stored)

    def create(self, key, rsrc):
        self.calls.append(('create', list(key), dict(rsrc)))

    def update(self, key, rsrc):
        self.calls.append(('update', list(key), dict(rsrc)))


def _api(S, spec):
    """API().reservation.create / update on fake admin objects.  Everything
    is a schema-valid string, so magnitudes are solver choices rendered in two
    spellings; the real jsonschema validation and unit parsers run."""
    import inspect
    import decorator
    if not hasattr(decorator, 'getargspec'):
        # environment: the pinned tree calls decorator.getargspec, which the
        # installed decorator 5.x no longer has (stub, listed in the evidence)
        decorator.getargspec = inspect.getfullargspec
    import jsonschema
    import importlib
    from crosshair.tracers import NoTracing
    from treadmill import exc, utils
    from treadmill.api import allocation as A
    if spec.get('redefine'):
        # no module-level state from earlier paths (costs ~50 ms per path, so
        # only where two requests share one process)
        A = importlib.reload(A)
    utils.cpu_units = _ORIG.get('cpu_units', utils.cpu_units)
    G = 2 ** 30
    part = {'cpu': '200%', 'memory': '4G', 'disk': '4G', 'limits': []}
    pv = (200, 4 * G, 4 * G)
    lim_vals = {}
    if spec['nlim']:
        part['limits'].append({'trait': 't1', 'cpu': '100%', 'memory': '2G',
                               'disk': '2048M'})
        lim_vals['t1'] = (100, 2 * G, 2 * G)
    allocs, avals = [], []
    for i in range(spec['n']):
        odd = False
        if i == 0:
            c = 100 * S.choice('alloc%d_cpu' % i, 2)
            m = S.choice('alloc%d_memG' % i, 4 if spec['n'] == 1 else 3)
            has_t1 = S.flag('alloc%d_has_t1' % i)
            odd = m == 3
        else:
            c, m, has_t1 = 50, 1, True      # the second one is fixed
        al = {'_id': 'tenant/alloc%d/cell' % i, 'cpu': '%d%%' % c,
              'memory': '%dG' % m, 'disk': '%dM' % (1024 * m),
              'partition': 'p',
              'traits': ['t1'] if has_t1 else []}
        mem_bytes = m * G
        if odd:
            # sizes in K that are not whole megabytes: 2G minus 1304K, so
            # that exactly 1304K of the trait limit (2G) stay free
            al['memory'] = '2095848K'
            al['disk'] = '1M'
            mem_bytes = 2095848 * 1024
        allocs.append(al)
        avals.append((c, mem_bytes, (1 if odd else m) * (2 ** 20 if odd else G)))
    c = (0, 100, 150, 50)[S.choice('req_cpu', {0: 4, 1: 2}.get(spec['n'], 3))]
    mi = S.choice('req_memG', 6 if spec['n'] == 1 else 4)
    m = (0, 1, 3, 5, 0, 0)[mi]
    d = (1, 5)[S.choice('req_diskG', 2)]
    sp = S.choice('req_spelling', 2) if spec['n'] == 0 else 1
    req = {'cpu': '%d%%' % c,
           'memory': ('%dG' % m) if sp else ('%dM' % (1024 * m)),
           'disk': ('%dG' % d) if not sp else ('%dM' % (1024 * d))}
    rv = (c, m * G, d * G)
    if mi >= 4:
        kb = (1000, 1500)[mi - 4]        # fits / does not fit into 1304K
        req['memory'] = '%dK' % kb
        rv = (c, kb * 1024, d * G)
    tr = S.choice('req_traits', 3)
    if tr:
        req['traits'] = [[], ['t1']][tr - 1]
    with_partition = S.flag('req_names_partition')
    if with_partition:
        req['partition'] = 'p'
    if spec['n'] == 0 and S.flag('req_has_rank'):
        req['rank'] = 50
    names = ['tenant/new'] + ['tenant/alloc%d' % i for i in range(spec['n'])]
    name = names[S.choice('req_name', len(names))] if len(names) > 1 \
        else names[0]
    replaced = None
    for i in range(spec['n']):
        if name == 'tenant/alloc%d' % i:
            replaced = i
    stored = dict(allocs[replaced]) if replaced is not None else \
        {'_id': name + '/cell', 'cpu': '0%', 'memory': '0G', 'disk': '0G',
         'partition': 'p', 'traits': [], 'rank': 100}
    adm = _Admin(allocs, stored)
    A._admin_cell_alloc = lambda: adm
    A._admin_partition = lambda: _Fake(part=part)
    with __import__('crosshair.tracers').tracers.NoTracing():
        api = A.API()
    verb = spec['verb']
    if spec.get('redefine'):
        # an earlier, harmless request in the same process ...
        with NoTracing():
            try:
                api.reservation.create('tenant/first/cell',
                                       {'cpu': '0%', 'memory': '0M',
                                        'disk': '0M', 'partition': 'p',
                                        'traits': ['t1']})
            except Exception:       # noqa
                pass
        adm.calls[:] = []
        # ... then the partition is shrunk and the trait limit lowered
        part.update({'cpu': '100%', 'memory': '2G', 'disk': '2G'})
        pv = (100, 2 * G, 2 * G)
        if spec['nlim']:
            part['limits'] = [{'trait': 't1', 'cpu': '50%', 'memory': '1G',
                               'disk': '1G'}]
            lim_vals['t1'] = (50, G, G)
        S.reach('partition_redefined')
    sent = dict(req)
    accepted, malformed = True, False
    try:
        # every argument is concrete here (the solver only picked the
        # alternatives): the call runs untraced - jsonschema under the tracer
        # costs ~0.4 s per path
        with NoTracing():
            getattr(api.reservation, verb)(name + '/cell', req)
    except exc.InvalidInputError:
        accepted = False
    except jsonschema.exceptions.ValidationError:
        accepted = False
        malformed = True
    except Exception as e:      # noqa
        import traceback
        S.fail('C19:service_failure_instead_of_input_error',
               {'error': repr(e), 'verb': verb, 'request': sent,
               'trace': traceback.format_exc()[-400:]})
    S.reach('api_called')
    others = [av for i, av in enumerate(avals) if i != replaced]
    other_traits = [allocs[i]['traits'] for i in range(len(allocs))
                    if i != replaced]
    fits = all(rv[k] <= pv[k] - sum(av[k] for av in others) for k in range(3))
    if 't1' in sent.get('traits', []) and 't1' in lim_vals:
        fits = fits and all(
            rv[k] <= lim_vals['t1'][k] - sum(av[k] for av, t in
                                             zip(others, other_traits)
                                             if 't1' in t) for k in range(3))
    # what the documented schema asks for (reservation.json: verbs/create
    # needs memory, cpu, disk; verbs/update also partition)
    well_formed = verb == 'create' or with_partition
    if malformed:
        S.reach('api_schema_rejected')
        S.check('C19:well_formed_request_rejected_by_schema', not well_formed,
                {'verb': verb, 'request': sent})
        return
    if accepted:
        S.reach('api_accepted')
        S.check('C19:accepted_reservation_exceeds_capacity_or_trait_limit',
                fits, {'verb': verb, 'request': sent, 'others': allocs})
        writes = [c_ for c_ in adm.calls if c_[0] in ('create', 'update')]
        S.check('C19:accepted_request_not_stored_exactly_once',
                len(writes) == 1 and writes[0][0] == verb and
                writes[0][1] == ['cell', name], {'calls': writes})
        if writes:
            rec = writes[0][2]
            S.check('C19:stored_reservation_differs_from_request',
                    all(rec.get(k) == sent[k] for k in ('cpu', 'memory',
                                                        'disk')) and
                    rec.get('partition') == (sent.get('partition') or
                                             ('_default' if verb == 'create'
                                              else 'p')) and
                    (verb != 'create' or rec.get('rank') ==
                     sent.get('rank', 100)),
                    {'stored': rec, 'request': sent})
        # the capacity check looked at the partition the request names
        lists = [c_ for c_ in adm.calls if c_[0] == 'list']
        S.check('C19:capacity_checked_in_another_partition',
                all(c_[1].get('partition') == (sent.get('partition') or
                                               '_default') and
                    c_[1].get('cell') == 'cell' for c_ in lists),
                {'lists': lists})
    else:
        S.reach('api_rejected')
        S.check('C19:fitting_reservation_rejected', not fits,
                {'verb': verb, 'request': sent, 'others': allocs})
        S.check('C19:rejected_request_was_stored',
                not [c_ for c_ in adm.calls if c_[0] in ('create', 'update')])


def harness(S, spec):
    if spec.get('kind') == 'api':
        return _api(S, spec)
    A, utils = _install(S)
    from treadmill import exc
    sp = spec['spelled']
    hi = BIG
    part, pv = _triple(S, 'part', sp, hi)
    part['limits'] = []
    lim_vals = {}
    lim_traits = TRAITS[:spec['nlim']]
    if spec.get('limit_second_only'):
        lim_traits = TRAITS[1:2]
    for t in lim_traits:
        lim, lv = _triple(S, 'limit_' + t, sp, hi)
        lim['trait'] = t
        part['limits'].append(lim)
        lim_vals[t] = lv
    allocs = []
    avals = []
    for i in range(spec['n']):
        al, av = _triple(S, 'alloc%d' % i, sp, hi)
        if sp:
            al['traits'] = [TRAITS[i % 2]]
        else:
            al['traits'] = [t for t in TRAITS
                            if S.flag('alloc%d_has_%s' % (i, t))]
        al['_id'] = 'tenant/alloc%d/cell' % i
        allocs.append(al)
        avals.append(av)
    req, rv = _triple(S, 'req', sp, hi)
    req['traits'] = [t for t in TRAITS if S.flag('req_has_%s' % t)]
    req['partition'] = 'p'
    # the reservation being created / replaced: a new name, exactly an
    # existing one (that one is excluded from the sums), or names that are a
    # prefix / suffix / extension of existing ids without being equal
    names = ['tenant/new', 'tenant/alloc0', 'tenant/alloc', 'alloc0',
             'tenant/alloc0/x', 'tenant/alloc1']
    if spec['replaced'] is None:
        names = [names[0]] + names[2:5]
    else:
        names = [names[1], names[5]] if spec['n'] > 1 else [names[1]]
    name = names[S.choice('req_name', len(names))] if len(names) > 1 \
        else names[0]
    S.const('req_name_text', name)
    replaced = None
    for i in range(spec['n']):
        if name == 'tenant/alloc%d' % i:
            replaced = i
    A._admin_cell_alloc = lambda: _Fake(lst=allocs)
    A._admin_partition = lambda: _Fake(part=part,
                                       missing=spec.get('missing', False))
    if spec.get('missing'):
        pv = (0, 0, 0)
        lim_vals = {}
    accepted = True
    try:
        A._check_capacity('cell', name, req)
    except exc.InvalidInputError:
        accepted = False
    except Exception as e:      # noqa
        S.fail('C19:service_failure_instead_of_input_error',
               {'error': repr(e)})
    # independent sums
    others = [av for i, av in enumerate(avals)
              if i != replaced]
    other_traits = [allocs[i]['traits'] for i in range(len(allocs))
                    if i != replaced]
    fits = []
    for k in range(3):
        tot = z3.IntVal(0)
        for av in others:
            tot = tot + S.z(av[k])
        fits.append(S.z(rv[k]) <= S.z(pv[k]) - tot)
    for t, lv in lim_vals.items():
        if t not in req['traits']:
            continue
        S.reach('trait_limit_applies')
        for k in range(3):
            tot = z3.IntVal(0)
            for av, tr in zip(others, other_traits):
                if t in tr:
                    tot = tot + S.z(av[k])
            fits.append(S.z(rv[k]) <= S.z(lv[k]) - tot)
    should = z3.And(*fits)
    if accepted:
        S.reach('accepted')
        S.check('C19:accepted_reservation_exceeds_capacity_or_trait_limit',
                should)
    else:
        S.reach('rejected')
        S.check('C19:fitting_reservation_rejected', z3.Not(should))


META = {
    'functions_encoded': [
        'api.allocation._check_capacity', 'api.allocation._calc_free',
        'api.allocation._calc_free_traits', 'api.allocation._check_limit',
        'api.allocation._partition_get', 'utils.size_to_bytes',
        'utils.cpu_units (strings)',
        'api.allocation.API().reservation.create / update (closures, with '
        'schema.schema validation against reservation.json)'],
    'reach_required': ['accepted', 'rejected', 'trait_limit_applies',
                       'api_called', 'api_accepted', 'api_rejected'],
}


def weight(name, spec):
    if spec.get('kind') == 'api':
        return 4 + spec.get('n', 0) * 4
    return spec.get('n', 0) * 3 + spec.get('nlim', 0)
