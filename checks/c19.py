"""C19 - accepted reservations never exceed partition capacity or trait limits."""
import z3

import repo  # noqa: F401
import symx

PROPERTY = 'C19'
BIG = 2 ** 40
TRAITS = ['t1', 't2']
_ORIG = {}


def _install(S):
    from treadmill import utils
    from treadmill.api import allocation as A
    if not _ORIG:
        _ORIG['cpu_units'] = utils.cpu_units

    orig = _ORIG['cpu_units']

    def cpu_units(value):
        """int(str(n)) == n: integers (solver variables) pass through, strings
        go to the real parser."""
        if isinstance(value, str):
            return orig(value)
        return value

    if S.concrete:
        utils.cpu_units = orig
    else:
        utils.cpu_units = cpu_units
    return A, utils


class _Fake:
    def __init__(self, lst=None, part=None, missing=False):
        self.lst, self.part, self.missing = lst, part, missing

    def list(self, _attrs):
        return self.lst

    def get(self, _key):
        if self.missing:
            from treadmill.admin import exc as admin_exceptions
            raise admin_exceptions.NoSuchObjectResult()
        return self.part


def subharnesses(tier):
    subs = []
    ns = (0, 1, 2) if tier == 'quick' else (0, 1, 2, 3)
    for n in ns:
        for nlim in (0, 1, 2):
            for replaced in ([None] + ([0] if n else [])):
                for spelled in (False, True):
                    if spelled and (n > 1 and tier == 'quick' and nlim == 2):
                        continue
                    subs.append(('n%d-lim%d-repl%s-%s' % (
                        n, nlim, replaced, 'spelled' if spelled else 'ints'),
                        {'n': n, 'nlim': nlim, 'replaced': replaced,
                         'spelled': spelled}))
    for n in (1, 2):
        subs.append(('n%d-limit_on_second_trait-ints' % n,
                     {'n': n, 'nlim': 1, 'replaced': None, 'spelled': False,
                      'limit_second_only': True}))
    subs.append(('no-partition', {'n': 1, 'nlim': 0, 'replaced': None,
                                  'spelled': False, 'missing': True}))
    return subs


def budget(tier, name):
    return 400.0 if tier == 'quick' else 1500.0


SPELL = {
    # field -> list of (render(n) -> str, value(n) in base units)
    'cpu': [lambda n: '%d%%' % n, lambda n: '%d' % n],
    'mem': [lambda n: '%dG' % n, lambda n: '%dM' % (n * 1024)],
}


def _triple(S, prefix, spelled, hi):
    """(stored cpu, stored memory, stored disk), (cpu, memory, disk as
    z3-able numbers in %, bytes, bytes)."""
    if not spelled:
        c = S.int(prefix + '_cpu', 0, hi)
        m = S.int(prefix + '_mem', 0, hi)
        d = S.int(prefix + '_disk', 0, hi)
        return {'cpu': c, 'memory': m, 'disk': d}, (c, m, d)
    # unit spellings: concrete magnitudes per object (the request's are chosen
    # by the solver), rendered in one of two spellings per object; the real
    # parsers run on the strings
    if prefix == 'req':
        c = S.choice('req_cpu', 4) * 50
        m = S.choice('req_memG', 4)
        d = m
    elif prefix == 'part':
        c, m, d = 200, 4, 4
    elif prefix.startswith('limit'):
        c, m, d = 100, 2, 2
    else:
        i = int(prefix[-1])
        c, m, d = 50 * (i + 1), 1, 1 + i
    sp = S.choice(prefix + '_spelling', 2)
    return ({'cpu': SPELL['cpu'][sp](c), 'memory': SPELL['mem'][sp](m),
             'disk': SPELL['mem'][1 - sp](d)},
            (c, m * 2 ** 30, d * 2 ** 30))


def harness(S, spec):
    A, utils = _install(S)
    from treadmill import exc
    sp = spec['spelled']
    hi = BIG
    part, pv = _triple(S, 'part', sp, hi)
    part['limits'] = []
    lim_vals = {}
    lim_traits = TRAITS[:spec['nlim']]
    if spec.get('limit_second_only'):
        lim_traits = TRAITS[1:2]
    for t in lim_traits:
        lim, lv = _triple(S, 'limit_' + t, sp, hi)
        lim['trait'] = t
        part['limits'].append(lim)
        lim_vals[t] = lv
    allocs = []
    avals = []
    for i in range(spec['n']):
        al, av = _triple(S, 'alloc%d' % i, sp, hi)
        if sp:
            al['traits'] = [TRAITS[i % 2]]
        else:
            al['traits'] = [t for t in TRAITS
                            if S.flag('alloc%d_has_%s' % (i, t))]
        al['_id'] = 'tenant/alloc%d/cell' % i
        allocs.append(al)
        avals.append(av)
    req, rv = _triple(S, 'req', sp, hi)
    req['traits'] = [t for t in TRAITS if S.flag('req_has_%s' % t)]
    req['partition'] = 'p'
    # the reservation being created / replaced: a new name, exactly an
    # existing one (that one is excluded from the sums), or names that are a
    # prefix / suffix / extension of existing ids without being equal
    names = ['tenant/new', 'tenant/alloc0', 'tenant/alloc', 'alloc0',
             'tenant/alloc0/x', 'tenant/alloc1']
    if spec['replaced'] is None:
        names = [names[0]] + names[2:5]
    else:
        names = [names[1], names[5]] if spec['n'] > 1 else [names[1]]
    name = names[S.choice('req_name', len(names))] if len(names) > 1 \
        else names[0]
    S.const('req_name_text', name)
    replaced = None
    for i in range(spec['n']):
        if name == 'tenant/alloc%d' % i:
            replaced = i
    A._admin_cell_alloc = lambda: _Fake(lst=allocs)
    A._admin_partition = lambda: _Fake(part=part,
                                       missing=spec.get('missing', False))
    if spec.get('missing'):
        pv = (0, 0, 0)
        lim_vals = {}
    accepted = True
    try:
        A._check_capacity('cell', name, req)
    except exc.InvalidInputError:
        accepted = False
    except Exception as e:      # noqa
        S.fail('C19:service_failure_instead_of_input_error',
               {'error': repr(e)})
    # independent sums
    others = [av for i, av in enumerate(avals)
              if i != replaced]
    other_traits = [allocs[i]['traits'] for i in range(len(allocs))
                    if i != replaced]
    fits = []
    for k in range(3):
        tot = z3.IntVal(0)
        for av in others:
            tot = tot + S.z(av[k])
        fits.append(S.z(rv[k]) <= S.z(pv[k]) - tot)
    for t, lv in lim_vals.items():
        if t not in req['traits']:
            continue
        S.reach('trait_limit_applies')
        for k in range(3):
            tot = z3.IntVal(0)
            for av, tr in zip(others, other_traits):
                if t in tr:
                    tot = tot + S.z(av[k])
            fits.append(S.z(rv[k]) <= S.z(lv[k]) - tot)
    should = z3.And(*fits)
    if accepted:
        S.reach('accepted')
        S.check('C19:accepted_reservation_exceeds_capacity_or_trait_limit',
                should)
    else:
        S.reach('rejected')
        S.check('C19:fitting_reservation_rejected', z3.Not(should))


META = {
    'functions_encoded': [
        'api.allocation._check_capacity', 'api.allocation._calc_free',
        'api.allocation._calc_free_traits', 'api.allocation._check_limit',
        'api.allocation._partition_get', 'utils.size_to_bytes',
        'utils.cpu_units (strings)'],
    'reach_required': ['accepted', 'rejected', 'trait_limit_applies'],
}


def weight(name, spec):
    return spec.get('n', 0) * 3 + spec.get('nlim', 0)
