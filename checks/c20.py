"""C20 - the app monitor converges to the target count without overshoot."""
import z3

import repo  # noqa: F401
import symx
from qnum import Q

PROPERTY = 'C20'
NOW0 = 1600000000
APP = 'proid.app'
OUTCOMES = ['ok', 'notfound', 'badrequest', 'validation', 'other']
POLICIES = [None, 'fifo', 'lifo', 'bogus']


class _VT:
    now = NOW0

    def time(self):
        return self.now


VT = _VT()


def subharnesses(tier):
    subs = []
    counts = (0, 1, 2, 3, 5)
    currents = (0, 1, 2, 3, 4, 6)
    for c in counts:
        for cur in currents:
            for susp in ('never', 'sym'):
                if c > cur:
                    for oc in OUTCOMES:
                        for lw in (False, True):
                            subs.append(('count%d-cur%d-%s-%s-%s' % (
                                c, cur, susp, oc, 'waited' if lw else 'new'),
                                {'count': c, 'current': cur, 'susp': susp,
                                 'outcome': oc, 'last_waited': lw,
                                 'policy': None}))
                elif c < cur:
                    for pol in POLICIES:
                        for oc in ('ok', 'other'):
                            subs.append(('count%d-cur%d-%s-%s-%s' % (
                                c, cur, susp, pol, oc),
                                {'count': c, 'current': cur, 'susp': susp,
                                 'outcome': oc, 'last_waited': False,
                                 'policy': pol}))
                else:
                    subs.append(('count%d-cur%d-%s-equal' % (c, cur, susp),
                                 {'count': c, 'current': cur, 'susp': susp,
                                  'outcome': 'ok', 'last_waited': False,
                                  'policy': None}))
    if True:
        for c, cur in ((2, 0), (3, 1), (1, 3), (5, 2), (0, 0)):
            subs.append(('two-monitors-%d-%d' % (c, cur),
                         {'count': c, 'current': cur, 'susp': 'sym',
                          'outcome': 'ok', 'last_waited': False,
                          'policy': None, 'second': True}))
    subs.append(('no-monitor', {'count': None, 'current': 2, 'susp': 'sym',
                                'outcome': 'ok', 'last_waited': False,
                                'policy': None}))
    return subs


def budget(tier, name):
    return 300.0


def _x3600(v):
    """Token balance scaled by 3600 as an int-valued term."""
    from crosshair.tracers import NoTracing
    with NoTracing():
        if isinstance(v, Q):
            if 3600 % v.d:
                raise symx.HarnessError('unexpected denominator %r' % v.d)
            return symx._zint(v.n) * (3600 // v.d)
        if isinstance(v, float):
            x = v * 3600
            return z3.IntVal(int(round(x)))
        return symx._zint(v) * 3600


def harness(S, spec):
    import logging
    logging.disable(logging.CRITICAL)
    from treadmill import restclient
    from treadmill.sproc import appmonitor as am
    am.time = VT
    if not S.concrete:
        class _Math:
            """math.floor honours __floor__; CrossHair would realise the
            argument before entering the C function, so dispatch here."""
            @staticmethod
            def floor(x):
                return x.__floor__()
        am.math = _Math

        def _int(x):
            """int() insists on a builtin int from __int__; keep Q symbolic."""
            from crosshair.tracers import NoTracing
            with NoTracing():
                isq = isinstance(x, Q)
            return x.__int__() if isq else int(x)
        am.int = _int

        def _round(x, *a):
            from crosshair.tracers import NoTracing
            with NoTracing():
                isq = isinstance(x, Q)
            return x.__round__(*a) if isq else round(x, *a)
        am.round = _round
    else:
        import math as _m
        am.math = _m
        am.int = int
        am.round = round
    VT.now = S.int('now', NOW0, NOW0 + 10 ** 6)
    calls = []
    outcome = spec['outcome']

    def post(urls, url, payload=None, headers=None, **_kw):
        calls.append((url, payload))
        if outcome == 'notfound':
            raise restclient.NotFoundError('x')
        if outcome == 'badrequest':
            raise restclient.BadRequestError('x')
        if outcome == 'validation':
            raise restclient.ValidationError('x')
        if outcome == 'other':
            raise restclient.MaxRequestRetriesError('x')
        return None

    alerts = []
    updates = []
    am.restclient.post = post
    am.zkutils.update = lambda zk, path, data, *a, **k: updates.append(data)
    count = spec['count']
    cur = spec['current']
    insts = ['%s#%010d' % (APP, i + 1) for i in range(cur)]
    monitors = {}
    a = last = None
    if count is not None:
        a = S.int('available_x3600', 0, 2 * count * 3600)
        last = S.int('last_update', NOW0 - 10 ** 6, NOW0 + 10 ** 6)
        S.require(S.z(last) <= S.z(VT.now))
        if S.concrete:
            conf = {'count': count, 'available': a / 3600.0,
                    'rate': 2.0 * count / 3600.0, 'last_update': last}
        else:
            conf = {'count': count, 'available': Q(a, 3600),
                    'rate': Q(2 * count, 3600), 'last_update': last}
        if spec['policy'] is not None:
            conf['policy'] = spec['policy']
        monitors[APP] = conf
    other = 'proid.other'
    if spec.get('second'):
        monitors[other] = {
            'count': 1, 'available': 2.0 if S.concrete else Q(7200, 3600),
            'rate': (2.0 / 3600) if S.concrete else Q(2, 3600),
            'last_update': VT.now}
    suspended = {}
    deadline = None
    if spec['susp'] == 'sym':
        deadline = S.int('suspended_until', NOW0 - 10 ** 6, NOW0 + 2 * 10 ** 6)
        suspended[APP] = deadline
    state = {'scheduled': {APP: list(insts)}, 'monitors': monitors,
             'suspended': suspended}
    last_waited = {APP: NOW0} if spec['last_waited'] else {}
    am.reevaluate('http://api', lambda *a_, **k: alerts.append((a_, k)),
                  state, None, last_waited)
    # calls that concern APP (the optional second monitor creates 1 instance
    # of its own: payload {} and its own name - told apart by position: dict
    # order puts APP first)
    creates = [c for c in calls if c[1] == {}]
    deletes = [c for c in calls if c[1] != {}]
    if spec.get('second'):
        S.check('C20:second_monitor_not_served', len(creates) >= 1)
        creates = creates[:-1]
    if count is None:
        S.check('C20:deleted_monitor_causes_action', not calls)
        S.reach('no_monitor')
        return
    now = S.z(VT.now)
    is_susp = z3.BoolVal(False)
    if deadline is not None:
        is_susp = S.z(deadline) > now
    needed = count - cur
    S.check('C20:creates_and_deletes_in_one_evaluation',
            not (creates and deletes))
    if creates or deletes:
        S.reach('acted')
        S.check('C20:suspended_monitor_causes_action', z3.Not(is_susp))
    S.check('C20:more_than_one_create_request', len(creates) <= 1)
    S.check('C20:more_than_one_delete_request', len(deletes) <= 1)
    if needed <= 0:
        S.check('C20:create_although_nothing_missing', not creates)
    if needed >= 0:
        S.check('C20:delete_although_no_surplus', not deletes)
    if deletes:
        S.reach('deleted')
        got = list(deletes[0][1]['instances'])
        pol = spec['policy'] or 'fifo'
        S.check('C20:delete_with_invalid_policy', pol in ('fifo', 'lifo'))
        want = insts[:cur - count] if pol == 'fifo' else insts[count - cur:]
        S.check('C20:wrong_instances_deleted', got == want,
                {'deleted': got, 'expected': want, 'policy': pol})
    if needed < 0 and spec['policy'] in (None, 'fifo', 'lifo') and not deletes:
        S.check('C20:surplus_not_deleted', is_susp)
    # ---- token accounting against the refill rule, exact rationals x3600
    a0 = S.z(a)
    cap = 2 * count * 3600
    refill = a0 + 2 * count * (now - S.z(last))
    budget = z3.If(a0 < cap, z3.If(refill < cap, refill, cap), a0)
    after = _x3600(monitors[APP]['available'])
    if creates:
        S.reach('created')
        if outcome == 'ok':
            S.reach('create_succeeded')
            used = budget - after     # = 3600 * number requested
            S.check('C20:tokens_not_reduced_by_a_whole_number',
                    used % 3600 == 0)
            S.check('C20:requested_less_than_one', used >= 3600)
            S.check('C20:requested_more_than_missing', used <= needed * 3600)
            S.check('C20:requested_more_than_rate_budget', used <= budget)
        else:
            S.check('C20:tokens_consumed_by_failed_create', after == budget)
            if outcome in ('notfound', 'badrequest', 'validation'):
                S.check('C20:handled_failure_does_not_suspend',
                        APP in state['suspended'])
    else:
        S.check('C20:tokens_changed_without_create',
                z3.If(is_susp, after == a0, after == budget))
        if needed > 0:
            S.check('C20:missing_instances_and_budget_but_no_create',
                    z3.Or(is_susp, budget < 3600))
    S.check('C20:token_balance_outside_zero_to_twice_count',
            z3.And(after >= 0, after <= cap))
    if S.concrete and creates:
        n = int(str(creates[0][0]).rsplit('=', 1)[1])
        S.check('C20:requested_more_than_missing', 1 <= n <= needed)


META = {
    'functions_encoded': ['sproc.appmonitor.reevaluate'],
    'reach_required': ['acted', 'created', 'deleted', 'create_succeeded',
                       'no_monitor'],
}
