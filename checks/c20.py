"""C20 - the app monitor converges to the target count without overshoot."""
import z3

import repo  # noqa: F401
import symx
from qnum import Q

PROPERTY = 'C20'
NOW0 = 1600000000
APP = 'proid.app'
OUTCOMES = ['ok', 'notfound', 'badrequest', 'validation', 'other']
POLICIES = [None, 'fifo', 'lifo', 'bogus']


class _VT:
    now = NOW0

    def time(self):
        return self.now


VT = _VT()


def subharnesses(tier):
    subs = []
    counts = (0, 1, 2, 3, 5) if tier == 'quick' else (0, 1, 2, 3, 5, 8, 13)
    currents = (0, 1, 2, 3, 4, 6) if tier == 'quick' else \
        (0, 1, 2, 3, 4, 6, 9, 14)
    for c in counts:
        for cur in currents:
            for susp in ('never', 'sym'):
                if c > cur:
                    for oc in OUTCOMES:
                        for lw in (False, True):
                            subs.append(('count%d-cur%d-%s-%s-%s' % (
                                c, cur, susp, oc, 'waited' if lw else 'new'),
                                {'count': c, 'current': cur, 'susp': susp,
                                 'outcome': oc, 'last_waited': lw,
                                 'policy': None}))
                elif c < cur:
                    for pol in POLICIES:
                        for oc in ('ok', 'other'):
                            subs.append(('count%d-cur%d-%s-%s-%s' % (
                                c, cur, susp, pol, oc),
                                {'count': c, 'current': cur, 'susp': susp,
                                 'outcome': oc, 'last_waited': False,
                                 'policy': pol}))
                else:
                    subs.append(('count%d-cur%d-%s-equal' % (c, cur, susp),
                                 {'count': c, 'current': cur, 'susp': susp,
                                  'outcome': 'ok', 'last_waited': False,
                                  'policy': None}))
    if True:
        for c, cur in ((2, 0), (3, 1), (1, 3), (5, 2), (0, 0)):
            subs.append(('two-monitors-%d-%d' % (c, cur),
                         {'count': c, 'current': cur, 'susp': 'sym',
                          'outcome': 'ok', 'last_waited': False,
                          'policy': None, 'second': True}))
    # the monitor is re-configured by its ZooKeeper data watch while the
    # process runs (real _run_sync with its watch callbacks), then the app
    # keeps losing instances: the creates of the following evaluations stay
    # within the token bucket of the NEW target
    for n0, n1 in (((5, 1), (3, 1), (1, 3), (2, 2), (4, 2), (0, 2), (3, 0))
                   if tier == 'quick' else
                   ((5, 1), (3, 1), (1, 3), (2, 2), (4, 2), (0, 2), (3, 0),
                    (8, 1), (8, 3), (2, 8), (13, 5), (1, 1), (6, 0))):
        for cur0 in (0, n0):
            subs.append(('reconfig-%d-to-%d-cur%d' % (n0, n1, cur0),
                         {'kind': 'reconfig', 'n0': n0, 'n1': n1,
                          'cur0': cur0}))
            if tier == 'thorough':
                subs.append(('reconfig-%d-to-%d-cur%d-evals5' % (n0, n1, cur0),
                             {'kind': 'reconfig', 'n0': n0, 'n1': n1,
                              'cur0': cur0, 'evals': 5}))
    # the monitor is deleted while the process runs (alone in the cell, or
    # next to another one): no action for it afterwards, whatever happens to
    # its instances
    for n0 in (1, 3):
        for others in (0, 1):
            for cur_after in (0, n0 + 2):
                subs.append(('deleted-%d-others%d-cur%d' % (n0, others,
                                                           cur_after),
                             {'kind': 'reconfig', 'n0': n0, 'n1': None,
                              'cur0': n0, 'others': others,
                              'cur_after': cur_after}))
    # scale-down of a monitor whose count is changed through the real
    # masterapi.update_appmonitor (count only, as the REST API sends it): the
    # policy configured earlier still decides which instances go
    for pol in (None, 'fifo', 'lifo'):
        for n0, n1 in ((3, 1), (2, 0), (4, 3)):
            subs.append(('scaledown-%s-%d-to-%d' % (pol, n0, n1),
                         {'kind': 'scaledown', 'policy': pol, 'n0': n0,
                          'n1': n1}))
    subs.append(('no-monitor', {'count': None, 'current': 2, 'susp': 'sym',
                                'outcome': 'ok', 'last_waited': False,
                                'policy': None}))
    return subs


def budget(tier, name):
    return 300.0


def _x3600(v):
    """Token balance scaled by 3600 as an int-valued term."""
    from crosshair.tracers import NoTracing
    with NoTracing():
        if isinstance(v, Q):
            if 3600 % v.d:
                raise symx.HarnessError('unexpected denominator %r' % v.d)
            return symx._zint(v.n) * (3600 // v.d)
        if isinstance(v, float):
            x = v * 3600
            return z3.IntVal(int(round(x)))
        return symx._zint(v) * 3600


_REAL = {}


def _install_numeric_shims(S, am):
    if not S.concrete:
        class _Math:
            """math.floor honours __floor__; CrossHair would realise the
            argument before entering the C function, so dispatch here."""
            @staticmethod
            def floor(x):
                return x.__floor__()
        am.math = _Math

        def _int(x):
            """int() insists on a builtin int from __int__; keep Q symbolic."""
            from crosshair.tracers import NoTracing
            with NoTracing():
                isq = isinstance(x, Q)
            return x.__int__() if isq else int(x)
        am.int = _int

        def _round(x, *a):
            from crosshair.tracers import NoTracing
            with NoTracing():
                isq = isinstance(x, Q)
            return x.__round__(*a) if isq else round(x, *a)
        am.round = _round
    else:
        import math as _m
        am.math = _m
        am.int = int
        am.round = round


class _Stop(Exception):
    pass


def harness_reconfig(S, spec):
    """Real _run_sync: ChildrenWatch / ExistingDataWatch callbacks captured
    from a fake client, the loop driven from time.sleep."""
    from treadmill import context
    from treadmill.sproc import appmonitor as am
    n0, n1 = spec['n0'], spec['n1']
    EVALS = spec.get('evals', 3)    # evaluations after the re-configuration
    t = [S.int('t%d' % i, NOW0, NOW0 + 10 ** 6) for i in range(EVALS + 3)]
    for a, b in zip(t, t[1:]):
        S.require(S.z(a) <= S.z(b))
    # t[0] first configuration, t[1] first evaluation, t[2] re-configuration,
    # t[3..] evaluations
    children = {}
    data_watch = {}
    calls = []
    script = {'step': 0}

    def _count(n):
        return n if S.concrete else Q(n, 1)

    am.yaml = type('Y', (), {'load': staticmethod(
        lambda data: {'count': _count(int(data))})})

    class _ZK:
        def ChildrenWatch(self, path):
            def deco(fn):
                children[path] = fn
                # names only, nothing symbolic: run the watch untraced (under
                # the tracer `set - dict.keys()` is a lazy view and the
                # registration inside the loop trips over it)
                from crosshair.tracers import NoTracing
                with NoTracing():
                    fn(([APP] + ['proid.other'] * spec.get('others', 0))
                       if 'monitor' in path else
                       ['%s#%010d' % (APP, i + 1)
                        for i in range(spec['cur0'])] +
                       ['proid.other#0000000001'] * spec.get('others', 0))
                return fn
            return deco

    def _existing_data_watch(_zk, path):
        def deco(fn):
            data_watch[path] = fn
            fn(str(n0) if path.endswith(APP) else '1', object(), None)
            return fn
        return deco

    class _Sleeper(_VT):
        def sleep(self, _n):
            k = script['step']
            script['step'] = k + 1
            if k == 0:
                self.now = t[1]
            elif k == 1:
                # re-configuration arrives; from now on nothing is running
                self.now = t[2]
                from crosshair.tracers import NoTracing
                if n1 is None:
                    # the monitor node is deleted: its data watch fires with
                    # a DELETED event, the children watch with what is left
                    ev = type('E', (), {'type': 'DELETED'})()
                    [fn(None, None, ev) for p_, fn in data_watch.items()
                     if p_.endswith(APP)]
                    with NoTracing():
                        [fn(['proid.other'] * spec.get('others', 0))
                         for p_, fn in children.items() if 'monitor' in p_]
                        [fn(['%s#%010d' % (APP, i + 1)
                             for i in range(spec['cur_after'])] +
                            ['proid.other#0000000001'] * spec.get('others', 0))
                         for p_, fn in children.items() if 'sched' in p_]
                else:
                    [fn(str(n1), object(), None)
                     for p_, fn in data_watch.items() if p_.endswith(APP)]
                    with NoTracing():
                        [fn([]) for p_, fn in children.items()
                         if 'sched' in p_]
                self.now = t[3]
            elif k <= EVALS:
                self.now = t[2 + k]
            else:
                raise _Stop()

    sl = _Sleeper()
    am.time = sl
    sl.now = t[0]

    holder = {}
    real_reevaluate = _REAL.setdefault('reevaluate', am.reevaluate)

    def reevaluate(api_url, alert_f, state, zkclient, last_waited):
        holder['state'] = state
        rc = real_reevaluate(api_url, alert_f, state, zkclient, last_waited)
        conf = state['monitors'].get(APP)
        if conf is not None:
            conf['_after_%d' % script['step']] = conf['available']
        return rc
    am.reevaluate = reevaluate

    def post(urls, url, payload=None, headers=None, **_kw):
        conf = holder['state']['monitors'].get(APP)
        with __import__('crosshair.tracers').tracers.NoTracing():
            app = str(url).split('/instance/', 1)[-1].split('?', 1)[0]
        calls.append({'step': script['step'], 'payload': payload,
                      'before': conf['available'] if conf else None,
                      'conf': conf, 'url': str(url)[:40], 'app': app})
        return None
    am.restclient.post = post
    am.zkutils.update = lambda *a, **k: None
    am.zkwatchers.ExistingDataWatch = _existing_data_watch
    am.masterapi.get_suspended_appmonitors = lambda zk: {}
    am.make_alerter = lambda *a, **k: (lambda *a_, **k_: None)
    # exceptions inside the callbacks must surface, not end the process
    am.utils = type('U', (), {'exit_on_unhandled': staticmethod(lambda f: f)})

    class _Ctx:
        cell = 'c'

        class zk:
            conn = _ZK()
    am.context = type('C', (), {'GLOBAL': _Ctx})
    _install_numeric_shims(S, am)
    try:
        am._run_sync('http://api', '/nonexistent', False)
    except _Stop:
        pass
    finally:
        am.reevaluate = real_reevaluate
    S.check('C20:evaluations_did_not_run', script['step'] == EVALS + 2)
    if n1 is None:
        S.reach('monitor_deleted')
        acts = [c for c in calls if c['step'] >= 2 and
                (c['payload'] == {} and c.get('app') == APP or
                 c['payload'] not in ({}, None) and
                 any(str(i).startswith(APP + '#')
                     for i in c['payload'].get('instances', [])))]
        S.check('C20:deleted_monitor_causes_action', not acts,
                {'calls': [(c['step'], c.get('url'), c['payload'])
                           for c in acts]})
        return
    S.reach('reconfigured')
    # creates requested after the re-configuration; the amount of each is the
    # number of tokens taken (post happens before the balance is reduced and
    # nothing else touches it until the next evaluation refills it)
    later = [c for c in calls if c['step'] >= 2 and c['payload'] == {}]
    total = z3.IntVal(0)
    for i, c in enumerate(later):
        nxt = [d for d in calls if d['step'] > c['step'] and
               d['payload'] == {}]
        # balance right after this evaluation = balance the conf object held
        # when the evaluation returned; reevaluate() only refills at the start
        # of the next one, recorded below
        after = c['conf'].get('_after_%d' % c['step'])
        used = _x3600(c['before']) - _x3600(after)
        S.check('C20:requested_less_than_one', used >= 3600)
        total = total + used
    if later:
        S.reach('created_after_reconfiguration')
    last_t = S.z(t[2 + EVALS])
    S.check('C20:creates_after_reconfiguration_exceed_new_budget',
            total <= 2 * n1 * 3600 + 2 * n1 * (last_t - S.z(t[2])),
            {'new_target': n1, 'old_target': n0, 'creates': len(later)})
    if n1 == 0:
        S.check('C20:create_although_nothing_missing', not later)


def harness_scaledown(S, spec):
    """Monitor created with a policy through masterapi.update_appmonitor on
    memzk, count lowered by a count-only update, real _run_sync loop."""
    import memzk
    from crosshair.tracers import NoTracing
    from treadmill import yamlwrapper as real_yaml
    from treadmill.scheduler import masterapi
    from treadmill.sproc import appmonitor as am
    import treadmill.zknamespace as z
    n0, n1, pol = spec['n0'], spec['n1'], spec['policy']
    t = [S.int('t%d' % i, NOW0, NOW0 + 10 ** 6) for i in range(4)]
    for a, b in zip(t, t[1:]):
        S.require(S.z(a) <= S.z(b))
    tree = memzk.Tree()
    zk = memzk.Client(tree, 1)
    zk.make_default_acl = lambda acl: acl
    zk.set_acls = lambda path, acl: None
    tree.seed(z.path.appmonitor(), b'{}')
    with NoTracing():
        masterapi.update_appmonitor(zk, APP, count=n0, policy=pol)
    insts = ['%s#%010d' % (APP, i + 1) for i in range(n0)]
    children, data_watch, calls = {}, {}, []
    script = {'step': 0}

    def _load(data):
        d = dict(real_yaml.load(data))
        if not S.concrete:
            d['count'] = Q(d['count'], 1)
        return d
    am.yaml = type('Y', (), {'load': staticmethod(_load)})

    def children_watch(path):
        def deco(fn):
            children[path] = fn
            with NoTracing():
                fn([APP] if 'monitor' in path else list(insts))
            return fn
        return deco
    zk.ChildrenWatch = children_watch

    def _existing_data_watch(_zk, path):
        def deco(fn):
            data_watch[path] = fn
            fn(tree.nodes[path].data, object(), None)
            return fn
        return deco

    class _Sleeper(_VT):
        def sleep(self, _n):
            k = script['step']
            script['step'] = k + 1
            if k == 0:
                self.now = t[1]
            elif k == 1:
                self.now = t[2]
                with NoTracing():
                    masterapi.update_appmonitor(zk, APP, count=n1)
                path = z.path.appmonitor(APP)
                data_watch[path](tree.nodes[path].data, object(), None)
                self.now = t[3]
            else:
                raise _Stop()
    sl = _Sleeper()
    am.time = sl
    sl.now = t[0]

    def post(urls, url, payload=None, headers=None, **_kw):
        calls.append({'step': script['step'], 'url': url,
                      'payload': payload})
        return None
    am.restclient.post = post
    am.zkutils.update = lambda *a, **k: None
    am.zkwatchers.ExistingDataWatch = _existing_data_watch
    am.masterapi.get_suspended_appmonitors = lambda zk_: {}
    am.make_alerter = lambda *a, **k: (lambda *a_, **k_: None)
    am.utils = type('U', (), {'exit_on_unhandled': staticmethod(lambda f: f)})

    class _Ctx:
        cell = 'c'

        class zk_:
            conn = zk
    _Ctx.zk = _Ctx.zk_
    am.context = type('C', (), {'GLOBAL': _Ctx})
    _install_numeric_shims(S, am)
    try:
        am._run_sync('http://api', '/nonexistent', False)
    except _Stop:
        pass
    S.reach('scaled_down')
    deletes = [c for c in calls if c['payload'] not in ({}, None)]
    creates = [c for c in calls if c['payload'] == {}]
    S.check('C20:create_although_nothing_missing', not creates,
            {'calls': calls})
    S.check('C20:surplus_not_deleted', len(deletes) == 1, {'calls': calls})
    if deletes:
        got = list(deletes[0]['payload']['instances'])
        want = insts[n1 - n0:] if pol == 'lifo' else insts[:n0 - n1]
        S.check('C20:wrong_instances_deleted', got == want,
                {'deleted': got, 'expected': want, 'policy': pol})


def harness(S, spec):
    if spec.get('kind') == 'reconfig':
        return harness_reconfig(S, spec)
    if spec.get('kind') == 'scaledown':
        return harness_scaledown(S, spec)
    import logging
    logging.disable(logging.CRITICAL)
    from treadmill import restclient
    from treadmill.sproc import appmonitor as am
    am.time = VT
    _install_numeric_shims(S, am)
    VT.now = S.int('now', NOW0, NOW0 + 10 ** 6)
    calls = []
    outcome = spec['outcome']

    def post(urls, url, payload=None, headers=None, **_kw):
        calls.append((url, payload))
        if outcome == 'notfound':
            raise restclient.NotFoundError('x')
        if outcome == 'badrequest':
            raise restclient.BadRequestError('x')
        if outcome == 'validation':
            raise restclient.ValidationError('x')
        if outcome == 'other':
            raise restclient.MaxRequestRetriesError('x')
        return None

    alerts = []
    updates = []
    am.restclient.post = post
    am.zkutils.update = lambda zk, path, data, *a, **k: updates.append(data)
    count = spec['count']
    cur = spec['current']
    insts = ['%s#%010d' % (APP, i + 1) for i in range(cur)]
    monitors = {}
    a = last = None
    if count is not None:
        a = S.int('available_x3600', 0, 2 * count * 3600)
        last = S.int('last_update', NOW0 - 10 ** 6, NOW0 + 10 ** 6)
        S.require(S.z(last) <= S.z(VT.now))
        if S.concrete:
            conf = {'count': count, 'available': a / 3600.0,
                    'rate': 2.0 * count / 3600.0, 'last_update': last}
        else:
            conf = {'count': count, 'available': Q(a, 3600),
                    'rate': Q(2 * count, 3600), 'last_update': last}
        if spec['policy'] is not None:
            conf['policy'] = spec['policy']
        monitors[APP] = conf
    other = 'proid.other'
    if spec.get('second'):
        monitors[other] = {
            'count': 1, 'available': 2.0 if S.concrete else Q(7200, 3600),
            'rate': (2.0 / 3600) if S.concrete else Q(2, 3600),
            'last_update': VT.now}
    suspended = {}
    deadline = None
    if spec['susp'] == 'sym':
        deadline = S.int('suspended_until', NOW0 - 10 ** 6, NOW0 + 2 * 10 ** 6)
        suspended[APP] = deadline
    state = {'scheduled': {APP: list(insts)}, 'monitors': monitors,
             'suspended': suspended}
    last_waited = {APP: NOW0} if spec['last_waited'] else {}
    am.reevaluate('http://api', lambda *a_, **k: alerts.append((a_, k)),
                  state, None, last_waited)
    # calls that concern APP (the optional second monitor creates 1 instance
    # of its own: payload {} and its own name - told apart by position: dict
    # order puts APP first)
    creates = [c for c in calls if c[1] == {}]
    deletes = [c for c in calls if c[1] != {}]
    if spec.get('second'):
        S.check('C20:second_monitor_not_served', len(creates) >= 1)
        creates = creates[:-1]
    if count is None:
        S.check('C20:deleted_monitor_causes_action', not calls)
        S.reach('no_monitor')
        return
    now = S.z(VT.now)
    is_susp = z3.BoolVal(False)
    if deadline is not None:
        is_susp = S.z(deadline) > now
    needed = count - cur
    S.check('C20:creates_and_deletes_in_one_evaluation',
            not (creates and deletes))
    if creates or deletes:
        S.reach('acted')
        S.check('C20:suspended_monitor_causes_action', z3.Not(is_susp))
    S.check('C20:more_than_one_create_request', len(creates) <= 1)
    S.check('C20:more_than_one_delete_request', len(deletes) <= 1)
    if needed <= 0:
        S.check('C20:create_although_nothing_missing', not creates)
    if needed >= 0:
        S.check('C20:delete_although_no_surplus', not deletes)
    if deletes:
        S.reach('deleted')
        got = list(deletes[0][1]['instances'])
        pol = spec['policy'] or 'fifo'
        S.check('C20:delete_with_invalid_policy', pol in ('fifo', 'lifo'))
        want = insts[:cur - count] if pol == 'fifo' else insts[count - cur:]
        S.check('C20:wrong_instances_deleted', got == want,
                {'deleted': got, 'expected': want, 'policy': pol})
    if needed < 0 and spec['policy'] in (None, 'fifo', 'lifo') and not deletes:
        S.check('C20:surplus_not_deleted', is_susp)
    # ---- token accounting against the refill rule, exact rationals x3600
    a0 = S.z(a)
    cap = 2 * count * 3600
    refill = a0 + 2 * count * (now - S.z(last))
    budget = z3.If(a0 < cap, z3.If(refill < cap, refill, cap), a0)
    after = _x3600(monitors[APP]['available'])
    if creates:
        S.reach('created')
        if outcome == 'ok':
            S.reach('create_succeeded')
            used = budget - after     # = 3600 * number requested
            S.check('C20:tokens_not_reduced_by_a_whole_number',
                    used % 3600 == 0)
            S.check('C20:requested_less_than_one', used >= 3600)
            S.check('C20:requested_more_than_missing', used <= needed * 3600)
            S.check('C20:requested_more_than_rate_budget', used <= budget)
        else:
            S.check('C20:tokens_consumed_by_failed_create', after == budget)
            if outcome in ('notfound', 'badrequest', 'validation'):
                S.check('C20:handled_failure_does_not_suspend',
                        APP in state['suspended'])
    else:
        S.check('C20:tokens_changed_without_create',
                z3.If(is_susp, after == a0, after == budget))
        if needed > 0:
            S.check('C20:missing_instances_and_budget_but_no_create',
                    z3.Or(is_susp, budget < 3600))
    S.check('C20:token_balance_outside_zero_to_twice_count',
            z3.And(after >= 0, after <= cap))
    if S.concrete and creates:
        n = int(str(creates[0][0]).rsplit('=', 1)[1])
        S.check('C20:requested_more_than_missing', 1 <= n <= needed)


META = {
    'functions_encoded': ['sproc.appmonitor.reevaluate',
                          'sproc.appmonitor._run_sync (watch callbacks '
                          '_scheduled_watch, _appmonitors_watch, '
                          '_monitor_data_watch; loop)',
                          'scheduler.masterapi.update_appmonitor / '
                          'get_appmonitor (on memzk)'],
    'reach_required': ['acted', 'created', 'deleted', 'create_succeeded',
                       'no_monitor', 'reconfigured',
                       'created_after_reconfiguration', 'scaled_down',
                       'monitor_deleted'],
}
