"""Scratch directories for node-side state machines (real kernel semantics)."""
import atexit
import os
import shutil
import tempfile

_BASE = [None]


def base():
    if _BASE[0] is None or not os.path.isdir(_BASE[0]):
        root = os.environ.get('TMPDIR', '/tmp')
        _BASE[0] = tempfile.mkdtemp(prefix='verif-%d-' % os.getpid(), dir=root)
        atexit.register(shutil.rmtree, _BASE[0], True)
    return _BASE[0]


_N = [0]


def fresh():
    """A new empty directory for the current path; earlier ones are removed."""
    b = base()
    for old in os.listdir(b):
        shutil.rmtree(os.path.join(b, old), True)
    _N[0] += 1
    d = os.path.join(b, 'p%d' % _N[0])
    os.makedirs(d)
    return d


def links(directory):
    """{name: basename(target) | '<file>'} for every entry (sorted)."""
    out = {}
    for n in sorted(os.listdir(directory)):
        p = os.path.join(directory, n)
        if os.path.islink(p):
            out[n] = os.path.basename(os.readlink(p))
        else:
            out[n] = '<file>'
    return out
