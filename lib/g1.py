"""G1 - bounded symbolic worlds around the real treadmill.scheduler.

A *spec* (plain dict, concrete) fixes the shape: topology, dimensions, per
server label / traits / state, per instance affinity / limits / lease / identity
group / allocation / initial placement / flags, and the event.  Everything
numeric (capacities, demands, priorities, expiries, state-since, retention
timeouts, valid-until) is a solver variable created by ``build``.
"""

import linecache
import logging
import os
import sys
import time as _time

import z3

REPO = os.environ.get('VERIF_REPO', '/repo')
if REPO + '/lib/python' not in sys.path:
    sys.path.insert(0, REPO + '/lib/python')

import symx  # noqa: E402

NOW = 1600000000
VMAX = 4095          # bound on every capacity / demand component
TSPAN = 10 ** 6      # times range over [NOW - TSPAN, NOW + TSPAN]

logging.disable(logging.WARNING)


class VTime:
    """Stands for the ``time`` module inside treadmill.scheduler."""
    now = NOW

    def time(self):
        return self.now

    mktime = staticmethod(_time.mktime)


VT = VTime()
_ORIG = {}


def install(S, D):
    from treadmill import scheduler as sch
    if not _ORIG:
        _ORIG.update(np=sch.np, any=sch._any, all=sch._all)
    sch.DIMENSION_COUNT = D
    sch.time = VT
    VT.now = NOW
    if S.concrete:
        sch.np, sch._any, sch._all = _ORIG['np'], _ORIG['any'], _ORIG['all']
    else:
        import symnp
        sch.np = symnp
        sch._any = symnp.merged_any
        sch._all = symnp.merged_all
        symnp.CURRENT[0] = S
    return sch


TOPOS = {
    # name: (buckets [(name, level, parent)], server parents)
    'T1': ([('rack:a', 'rack', None)], ['rack:a', 'rack:a']),
    'T2': ([('rack:a', 'rack', None), ('rack:b', 'rack', None)],
           ['rack:a', 'rack:b']),
    'T3': ([('pod:p', 'pod', None), ('rack:a', 'rack', 'pod:p'),
            ('rack:b', 'rack', 'pod:p')], ['rack:a', 'rack:a', 'rack:b']),
    'T4': ([('rack:a', 'rack', None), ('rack:b', 'rack', None)],
           ['rack:a', 'rack:a', 'rack:b']),
}


class World:
    pass


def vec(S, prefix, D, lo=0, hi=VMAX):
    return [S.int('%s_%d' % (prefix, k), lo, hi) for k in range(D)]


def build(S, spec):
    """Build the pre-state through the real constructors / restore path."""
    D = spec['D']
    sch = install(S, D)
    W = World()
    W.S, W.sch, W.spec, W.D = S, sch, spec, D
    W.log = []          # (op, server, app, caller-branch)
    cell = sch.Cell('top')
    W.cell = cell
    W.buckets = {}
    bdefs, sparents = TOPOS[spec['topo']]
    for name, level, parent in bdefs:
        b = sch.Bucket(name, level=level)
        W.buckets[name] = b
        (W.buckets[parent] if parent else cell).add_node(b)
    W.servers = []
    W.cap = []
    for j, sv in enumerate(spec['servers']):
        if 'capacity' in sv:
            cap = list(sv['capacity'])
        else:
            cap = vec(S, 'cap%d' % j, D)
        if spec.get('sym_valid_until'):
            vu = S.int('valid_until%d' % j, NOW - TSPAN, NOW + 10 * TSPAN)
        else:
            # servers always carry a reboot date (Partition.add); far away
            # unless the world says otherwise
            vu = sv.get('valid_until', NOW + 100 * TSPAN)
        srv = sch.Server('s%d' % j, list(cap), valid_until=vu,
                         traits=sv.get('traits', 0),
                         label=sv.get('label', '_default'))
        W.buckets[sparents[j]].add_node(srv)
        W.servers.append(srv)
        W.cap.append(cap)
        cell.partitions[sv.get('label', '_default')]  # create partition
    # allocations
    W.allocs = {}
    for a in spec.get('allocs', [{'path': [], 'label': '_default'}]):
        alloc = cell.partitions[a.get('label', '_default')].allocation
        for part in a['path']:
            alloc = alloc.get_sub_alloc(part)
        if a['path']:
            res = a.get('reserved')
            if res == 'sym':
                res = vec(S, 'res_' + '_'.join(a['path']), D)
            tagp = '_'.join(a['path'])
            rank = a.get('rank')
            if rank == 'sym':
                rank = S.int('rank_' + tagp, 0, 200)
            adj = a.get('rank_adjustment', 0)
            if adj == 'sym':
                adj = S.int('rankadj_' + tagp, 0, 50)
            alloc.update(res, rank, adj, a.get('max_utilization'))
            W.alloc_terms = getattr(W, 'alloc_terms', {})
            W.alloc_terms[(a.get('label', '_default'),) +
                          tuple(a['path'])] = (rank, adj)
            alloc.set_traits(a.get('traits', 0))
        W.allocs[(a.get('label', '_default'),) + tuple(a['path'])] = alloc
        W.alloc_cfg_traits = getattr(W, 'alloc_cfg_traits', {})
        W.alloc_cfg_traits[(a.get('label', '_default'),) + tuple(a['path'])] \
            = a.get('traits', 0) if a['path'] else 0
    # instances
    W.apps = []
    W.demand = []
    prios = []
    for i, ap in enumerate(spec['apps']):
        dem = vec(S, 'dem%d' % i, D)
        pr = ap.get('priority', 'sym')
        if pr == 'sym':
            pr = S.int('prio%d' % i, 0, 100)
            prios.append(pr)
        ret = ap.get('retention', 0)
        if ret == 'sym':
            ret = S.int('retention%d' % i, 0, TSPAN)
        app = sch.Application(
            'proid.app#%010d' % i, pr, list(dem), ap.get('aff', 'x'),
            affinity_limits=ap.get('limits'),
            data_retention_timeout=ret,
            lease=ap.get('lease', 0),
            identity_group=ap.get('ig'),
            traits=ap.get('traits', 0),
            schedule_once=ap.get('schedule_once', False))
        app.global_order = i
        W.apps.append(app)
        W.demand.append(dem)
    # symmetry reduction on symbolic priorities (index order)
    mode = spec.get('prio_order', 'strict')
    for a, b in zip(prios, prios[1:]):
        if mode == 'strict':
            S.require(S.z(a) > S.z(b))
        elif mode == 'ties':
            S.require(S.z(a) >= S.z(b))
    if prios and mode == 'strict':
        S.require(S.z(prios[-1]) > 0)
    for i, ap in enumerate(spec['apps']):
        if ap.get('absent'):
            continue
        key = tuple(ap.get('alloc', ('_default',)))
        cell.add_app(W.allocs[key], W.apps[i])
        W.app_alloc = getattr(W, 'app_alloc', {})
        W.app_alloc[i] = key
    for g, count in spec.get('igroups', {}).items():
        cell.configure_identity_group(g, count)
    # pre-placement through Server.restore (what Loader.restore_placement does)
    W.expiry = {}
    for i, ap in enumerate(spec['apps']):
        j = ap.get('place')
        if j is None or ap.get('absent'):
            continue
        if spec.get('sym_expiry') and ap.get('lease', 0):
            exp = S.int('expiry%d' % i, NOW - TSPAN, NOW + TSPAN)
        else:
            exp = NOW + 1000 + i
        ok = W.servers[j].restore(W.apps[i], exp)
        S.assume(ok)
        W.expiry[i] = exp
        if ap.get('ident') is not None:
            W.apps[i].force_set_identity(ap['ident'])
        W.apps[i].evicted = False
        for f in ('renew', 'unschedule'):
            if ap.get(f):
                setattr(W.apps[i], f, True)
    for i, ap in enumerate(spec['apps']):
        if ap.get('blacklisted'):
            W.apps[i].blacklisted = True
        if ap.get('evicted') and ap.get('place') is None:
            W.apps[i].evicted = True
    # server states (after placement, as the loader does)
    W.since = {}
    W.down_since = {}
    for j, sv in enumerate(spec['servers']):
        st = sv.get('state', 'up')
        if st != 'up':
            since = S.int('since%d' % j, NOW - TSPAN, NOW)
            W.since[j] = since
            if st == 'down':
                W.down_since[j] = since
            W.servers[j].set_state(sch.State(st), since)
    _wrap(W)
    return W


def _caller_branch():
    f = sys._getframe(2)
    # skip our wrapper frames / Server.restore -> Server.put
    depth = 0
    while f is not None and depth < 6:
        name = f.f_code.co_name
        if name == '_find_placements':
            line = linecache.getline(f.f_code.co_filename, f.f_lineno).strip()
            if 'evicted_from' in line:
                return 'fp:restore_evicted'
            if "restore['server']" in line:
                return 'fp:restore_renew'
            if 'evicted_app_server.put' in line:
                return 'fp:evict_put'
            if 'self.put' in line:
                return 'fp:put'
            return 'fp:' + line[:40]
        if name == 'put' and 'self' in f.f_locals and \
                type(f.f_locals['self']).__name__ in ('Bucket', 'Cell'):
            return 'bucket'
        if name in ('_handle_inactive_servers', '_handle_blacklisted_apps',
                    '_fix_invalid_identities', 'remove_app', 'remove_all'):
            return name
        f = f.f_back
        depth += 1
    return 'other'


def _wrap(W):
    """Log which branch calls Server.put / remove (per world, on instances'
    class - restored by unwrap)."""
    from crosshair.tracers import NoTracing
    sch = W.sch
    Server = sch.Server
    if not hasattr(Server, '_verif_orig'):
        Server._verif_orig = (Server.put, Server.remove)
    oput, oremove = Server._verif_orig
    log = W.log

    def put(self, app, *a, **kw):
        rc = oput(self, app, *a, **kw)
        if rc:
            with NoTracing():
                log.append(('put', self.name, app.name, _caller_branch()))
        return rc

    def remove(self, app_name, *a, **kw):
        with NoTracing():
            log.append(('remove', self.name, app_name, _caller_branch()))
        return oremove(self, app_name, *a, **kw)

    Server.put = put
    Server.remove = remove
    # capture the queue handed to _find_placements
    Cell = sch.Cell
    if not hasattr(Cell, '_verif_orig_fp'):
        Cell._verif_orig_fp = Cell._find_placements
    ofp = Cell._verif_orig_fp
    W.queues = []

    def _find_placements(self, queue, servers, *a, **kw):
        W.queues.append([a.name for a in queue])
        W.queue_pre = getattr(W, 'queue_pre', [])
        W.queue_pre.append({a.name: (a.server, a.final_rank) for a in queue})
        return ofp(self, queue, servers, *a, **kw)

    Cell._find_placements = _find_placements


# ---------------------------------------------------------------- events

def apply_event(W, ev):
    S, sch, cell = W.S, W.sch, W.cell
    kind = ev[0]
    if kind == 'none':
        return
    if kind == 'remove_app':
        cell.remove_app(W.apps[ev[1]].name)
        W.removed = getattr(W, 'removed', set()) | {ev[1]}
    elif kind == 'add_app':
        i = ev[1]
        key = tuple(W.spec['apps'][i].get('alloc', ('_default',)))
        cell.add_app(W.allocs[key], W.apps[i])
    elif kind == 'move_app':      # to another allocation (Loader.load_app)
        i, key = ev[1], tuple(ev[2])
        cell.add_app(W.allocs[key], W.apps[i])
        W.app_alloc[i] = key
    elif kind == 'alloc_traits':  # Loader.load_allocations: set_traits, then
        #                           every instance is loaded again (add_app)
        key, t = tuple(ev[1]), ev[2]
        W.allocs[key].set_traits(t)
        W.alloc_cfg_traits[key] = t
        for i, app in live_apps(W):
            cell.add_app(W.allocs[W.app_alloc[i]], app)
    elif kind == 'server_state':
        j, st = ev[1], ev[2]
        since = S.int('ev_since%d' % getattr(W, 'nev', 0), NOW - TSPAN, NOW)
        W.nev = getattr(W, 'nev', 0) + 1
        W.since[j] = since
        if st == 'down' and W.servers[j].state is not sch.State.down:
            W.down_since[j] = since
        W.servers[j].set_state(sch.State(st), since)
    elif kind == 'remove_server':
        j = ev[1]
        srv = W.servers[j]
        srv.remove_all()
        srv.parent.remove_node(srv)
        for label in srv.labels:
            cell.partitions[label].remove(srv)
        W.gone = getattr(W, 'gone', set()) | {j}
    elif kind == 'remove_app_then_server':
        # the server once hosted an instance (its counters keep the key with
        # count 0), the instance is deleted, then the server leaves
        j = ev[1]
        srv = W.servers[j]
        for name in list(srv.apps):
            cell.remove_app(name)
            W.removed = getattr(W, 'removed', set()) | {int(name[-10:])}
        apply_event(W, ('remove_server', j))
    elif kind == 'replace_server':     # Loader.reload_server with new data
        j = ev[1]
        srv = W.servers[j]
        parent = srv.parent
        had = list(srv.apps)
        srv.remove_all()
        parent.remove_node(srv)
        cap = vec(S, 'newcap%d' % j, W.D)
        new = sch.Server(srv.name, list(cap),
                         valid_until=srv.valid_until,
                         traits=ev[2].get('traits', srv.traits.self_traits),
                         label=ev[2].get('label', list(srv.labels)[0]))
        parent.add_node(new)
        W.servers[j] = new
        W.cap[j] = cap
        cell.partitions[list(new.labels)[0]]
        # Loader.restore_placement(restore_identity=False): re-put what fits
        for name in had:
            app = cell.apps.get(name)
            if app is not None:
                new.restore(app, W.expiry.get(int(name[-10:])))
    elif kind == 'reload_cell':
        # the 'cell' event of the master: real Loader.load_cell on the
        # buckets and cell of this world (top-level bucket list unchanged, or
        # without the buckets named in ev[1])
        from treadmill.scheduler import loader as _loader
        drop = set(ev[1]) if len(ev) > 1 else set()
        tops = [n for n, _l, parent in TOPOS[W.spec['topo']][0]
                if parent is None and n not in drop]

        class _Backend:
            def list(self, _path):
                return list(tops)
        ld = _loader.Loader.__new__(_loader.Loader)
        ld.backend = _Backend()
        ld.cell = cell
        ld.buckets = W.buckets
        ld.load_cell()
    elif kind == 'alloc_update':
        # Loader.load_allocations on an existing allocation: update(reserved,
        # rank, rank_adjustment, max_utilization) with new values
        key = tuple(ev[1])
        res, rank, adj, mu = ev[2]
        W.allocs[key].update(res, rank, adj, mu)
        W.alloc_terms = getattr(W, 'alloc_terms', {})
        W.alloc_terms[key] = (rank, adj if adj is not None else 0)
        configured_cap(W, W.apps[0].name)       # initialise the table
        W.alloc_caps[key] = mu
    elif kind == 'bucket_state':
        # Node.set_state on a rack / pod (nothing in the master does this
        # today; the API allows it)
        since = S.int('ev_bsince%d' % getattr(W, 'nev', 0), NOW - TSPAN, NOW)
        W.nev = getattr(W, 'nev', 0) + 1
        W.buckets[ev[1]].set_state(sch.State(ev[2]), since)
    elif kind == 'set_valid_until':
        # the reboot date of a server is re-assigned under its instances
        # (RebootBucket.add, via Partition.add / Loader.set_server_valid_until,
        # writes the attribute directly)
        for j in ev[1:]:
            W.servers[j].valid_until = S.int(
                'ev_valid_until%d' % j, NOW - TSPAN, NOW + 10 * TSPAN)
    elif kind == 'set_priority':
        i = ev[1]
        W.apps[i].priority = S.int('ev_prio', 0, 100)
    elif kind == 'igroup':
        cell.configure_identity_group(ev[1], ev[2])
    elif kind == 'igroup_remove':
        cell.remove_identity_group(ev[1])
    elif kind == 'igroup_recreate':
        cell.remove_identity_group(ev[1])
        cell.configure_identity_group(ev[1], ev[2])
    elif kind == 'blacklist':
        W.apps[ev[1]].blacklisted = True
    elif kind == 'clock':
        VT.now = NOW + ev[1]
    else:
        raise symx.HarnessError('unknown event %r' % (ev,))


# ---------------------------------------------------------------- oracles

def live_apps(W):
    return [(i, a) for i, a in enumerate(W.apps) if a.name in W.cell.apps]


def members(W):
    return W.cell.members()


def ri1(W, tag=''):
    """free = init - sum(demand), free >= 0, views agree."""
    S = W.S
    mem = members(W)
    seen = {}
    for name, srv in mem.items():
        for k in range(W.D):
            tot = z3.IntVal(0)
            for an, app in srv.apps.items():
                dem = app.demand
                # the declared demand (harness variable), not what the
                # object says now
                hd = getattr(W, 'demand', None)
                if isinstance(hd, list):
                    idx = int(an[-10:])
                    if idx < len(hd):
                        dem = hd[idx]
                        S.check('C01:declared_demand_changed_by_scheduler'
                                + tag,
                                S.z(app.demand[k]) == S.z(dem[k]),
                                {'app': an, 'dim': k})
                tot = tot + S.z(dem[k])
            S.check('C01:free_equals_capacity_minus_sum' + tag,
                    S.z(srv.free_capacity[k]) ==
                    S.z(srv.init_capacity[k]) - tot,
                    {'server': name, 'dim': k})
            S.check('C01:oversubscribed' + tag,
                    tot <= S.z(srv.init_capacity[k]),
                    {'server': name, 'dim': k})
        for an, app in srv.apps.items():
            S.check('C01:instance_on_two_servers' + tag, an not in seen,
                    {'app': an})
            seen[an] = name
            S.check('C01:server_lists_instance_that_points_elsewhere' + tag,
                    app.server == name, {'app': an, 'server': name})
            S.check('C01:server_lists_unscheduled_instance' + tag,
                    W.cell.apps.get(an) is app, {'app': an})
    hd = getattr(W, 'demand', None)
    if isinstance(hd, list):
        for an, app in W.cell.apps.items():
            idx = int(an[-10:])
            if idx < len(hd):
                for k in range(W.D):
                    S.check('C01:declared_demand_changed_by_scheduler' + tag,
                            S.z(app.demand[k]) == S.z(hd[idx][k]),
                            {'app': an, 'dim': k})
    for an, app in W.cell.apps.items():
        if app.server is not None and app.server in mem:
            S.check('C01:instance_points_to_server_not_listing_it' + tag,
                    an in mem[app.server].apps,
                    {'app': an, 'server': app.server})
        if app.server is not None:
            S.check('C01:instance_points_to_missing_server' + tag,
                    app.server in mem, {'app': an, 'server': app.server})


def result_agrees(W, placement, before, tag=''):
    S = W.S
    names = set()
    for name, s_before, _eb, s_after, _ea in placement:
        S.check('C01:result_tuple_duplicate' + tag, name not in names)
        names.add(name)
        app = W.cell.apps.get(name)
        S.check('C01:result_after_differs_from_model' + tag,
                app is not None and app.server == s_after, {'app': name})
    for name in W.cell.apps:
        S.check('C01:result_misses_instance' + tag, name in names,
                {'app': name})


def snapshot(W):
    return {a.name: a.server for a in W.cell.apps.values()}


def subtree_servers(node):
    return list(node.members().values())


def all_nodes(W):
    out = [W.cell]
    stack = [W.cell]
    while stack:
        n = stack.pop()
        for c in n.children_iter():
            out.append(c)
            if hasattr(c, 'children') and not hasattr(c, 'apps'):
                stack.append(c)
    return out


def placements(A, nserv, symmetric=True):
    import itertools
    out = []
    for p in itertools.product([None] + list(range(nserv)), repeat=A):
        if symmetric:
            first = [x for x in p if x is not None]
            if first and first[0] != 0:
                continue
        out.append(p)
    return out


def ptag(pl):
    return ''.join('p' if j is None else str(j) for j in pl)


def evtag(ev):
    return '_'.join(str(x) for x in ev if not isinstance(x, (dict, list)))


def reach_branches(W):
    S = W.S
    for (_o, _s, _a, b) in W.log:
        if b == 'fp:evict_put':
            S.reach('eviction_put')
        elif b == 'fp:restore_evicted':
            S.reach('restored_after_eviction')
        elif b == 'fp:restore_renew':
            S.reach('restored_after_failed_renew')
        elif b == '_handle_inactive_servers':
            S.reach('removed_from_inactive_server')


def c07_oracle(W, pre, placement, queues, queue_pre, tag=''):
    """pre: {name: (server, state-of-server, flags)} captured before the cycle."""
    import sys as _sys
    S = W.S
    after = {n: sa for (n, _sb, _eb, sa, _ea) in placement}
    before = {n: sb for (n, sb, _eb, _sa, _ea) in placement}
    for q in queues:
        for pos, name in enumerate(q):
            info = pre.get(name)
            if info is None or info['server'] is None:
                continue
            app = W.cell.apps.get(name)
            if app is None:
                continue
            if not info['server_up'] or info['blacklisted'] or info['renew']:
                continue
            if info['identity_invalid']:
                continue
            if app.final_rank == _sys.maxsize and configured_cap(W, name):
                # over the utilisation cap its allocation is configured with
                continue
            if after.get(name) == info['server']:
                continue
            gained = [j for j in q[:pos]
                      if after.get(j) is not None and
                      after.get(j) != before.get(j)]
            if not gained:
                S.reach('displaced_without_cause')
            S.check('C07:running_instance_displaced_for_nobody_ahead' + tag,
                    bool(gained),
                    {'app': name, 'was_on': info['server'],
                     'now_on': after.get(name), 'queue': q})
            S.reach('displaced_for_instance_ahead')


def pre_info(W):
    mem = W.cell.members()
    out = {}
    for name, app in W.cell.apps.items():
        srv = mem.get(app.server) if app.server else None
        grp = app.identity_group_ref
        out[name] = {
            'server': app.server if srv is not None else None,
            'server_up': srv is not None and srv.state is W.sch.State.up,
            'blacklisted': app.blacklisted, 'renew': app.renew,
            'identity_invalid': (grp is not None and (
                app.identity is None or app.identity >= grp.count)),
        }
    return out


# ---------------------------------------------------------------- C03

def required_traits(W, name):
    """Traits the instance must find on its server, from the configuration
    the harness holds (own traits | traits of the allocation it is in)."""
    idx = int(name[-10:])
    own = W.spec['apps'][idx].get('traits', 0)
    key = getattr(W, 'app_alloc', {}).get(idx)
    return own | getattr(W, 'alloc_cfg_traits', {}).get(key, 0)


def configured_cap(W, name):
    """Does the allocation of the instance carry a utilisation cap, according
    to the configuration the harness applied (spec + alloc_update events)?"""
    key = getattr(W, 'app_alloc', {}).get(int(name[-10:]))
    caps = getattr(W, 'alloc_caps', None)
    if caps is None:
        caps = {}
        for a in W.spec.get('allocs', []):
            caps[(a.get('label', '_default'),) + tuple(a['path'])] = \
                a.get('max_utilization')
        W.alloc_caps = caps
    return caps.get(key) is not None


def configured_label(W, name):
    """Partition of the allocation the harness put the instance into (the
    back-reference on the object under test may be lost)."""
    key = getattr(W, 'app_alloc', {}).get(int(name[-10:]))
    return key[0] if key else None


def c03_oracle(W, placement, pre_state, tag=''):
    S, sch = W.S, W.sch
    mem = W.cell.members()
    for (name, sb, _eb, sa, _ea) in placement:
        app = W.cell.apps.get(name)
        if app is None or sa is None or sa == sb:
            continue
        srv = mem.get(sa)
        S.check('C03:assigned_to_unknown_server' + tag, srv is not None,
                {'app': name, 'server': sa})
        S.reach('new_assignment')
        S.check('C03:assigned_to_server_that_is_not_up' + tag,
                pre_state.get(sa) == 'up' and srv.state is sch.State.up,
                {'app': name, 'server': sa, 'state': str(srv.state)})
        label = configured_label(W, name)
        if label is not None:
            S.check('C03:assigned_outside_partition' + tag,
                    label in srv.labels,
                    {'app': name, 'server': sa, 'partition': label})
        need = required_traits(W, name)
        S.check('C03:assigned_without_required_traits' + tag,
                (srv.traits.self_traits & need) == need,
                {'app': name, 'server': sa, 'traits': need})
        # the lease the instance asked for (from the spec: the code under
        # test must not be trusted to have left app.lease alone)
        idx = int(name[-10:])
        lease = W.spec['apps'][idx].get('lease', 0) \
            if idx < len(W.spec['apps']) else app.lease
        S.check('C03:requested_lease_changed_by_scheduler' + tag,
                app.lease == lease, {'app': name, 'lease_now': app.lease,
                                     'requested': lease})
        if lease:
            S.reach('new_assignment_with_lease')
            S.check('C03:lease_outlives_server' + tag,
                    S.z(VT.now + lease) < S.z(srv.valid_until),
                    {'app': name, 'server': sa})
    for name, app in W.cell.apps.items():
        if app.server is None:
            continue
        srv = mem.get(app.server)
        if srv is None:
            continue
        label = configured_label(W, name)
        if label is not None:
            S.check('C03:placed_instance_on_foreign_partition' + tag,
                    label in srv.labels,
                    {'app': name, 'server': app.server, 'label': label})
        need = required_traits(W, name)
        S.check('C03:placed_instance_lacks_traits' + tag,
                (srv.traits.self_traits & need) == need,
                {'app': name, 'server': app.server, 'traits': need})


def server_states(W):
    return {n: s.state.value for n, s in W.cell.members().items()}


# ---------------------------------------------------------------- C04

def true_affinity_counts(node):
    import collections
    c = collections.Counter()
    for srv in node.members().values():
        for app in srv.apps.values():
            c[app.affinity.name] += 1
    return c


def c04_oracle(W, tag='', assume=False):
    """Limits at every level + counters equal true counts.  With assume=True
    the same conditions are taken as an assumption on the pre-state."""
    S = W.S
    for node in all_nodes(W):
        true = true_affinity_counts(node)
        if not assume:
            for aff in set(true) | set(node.affinity_counters):
                S.check('C04:affinity_counter_differs_from_true_count' + tag,
                        node.affinity_counters[aff] == true[aff],
                        {'node': node.name, 'affinity': aff,
                         'counter': node.affinity_counters[aff],
                         'true': true[aff]})
        placed = [app for srv in node.members().values()
                  for app in srv.apps.values()]

        def _declared(app):
            return (W.spec['apps'][int(app.name[-10:])].get('limits')
                    or {}).get(node.level)
        for srv in node.members().values():
            for app in srv.apps.values():
                # the limit the instance DECLARES (spec), not what the object
                # under test carries
                limit = _declared(app)
                if limit is None:
                    continue
                if not assume:
                    S.check('C04:declared_limit_changed' + tag,
                            app.affinity.limits[node.level] == limit,
                            {'app': app.name, 'level': node.level,
                             'declared': limit,
                             'object': app.affinity.limits[node.level]})
                # instances of one affinity may declare different values
                # (the scheduler checks the newcomer's): the count is bounded
                # by the loosest limit declared among those placed here
                others = [_declared(o) for o in placed
                          if o.affinity.name == app.affinity.name]
                if any(o is None for o in others):
                    continue
                ok = true[app.affinity.name] <= max(others)
                if assume:
                    S.assume(ok)
                else:
                    S.check('C04:affinity_limit_exceeded' + tag, ok,
                            {'node': node.name, 'level': node.level,
                             'affinity': app.affinity.name,
                             'count': true[app.affinity.name],
                             'limit': limit})


# ---------------------------------------------------------------- C05

def c05_oracle(W, tag=''):
    S = W.S
    cell = W.cell
    by_group = {}
    for name, app in cell.apps.items():
        if not app.identity_group:
            continue
        by_group.setdefault(app.identity_group, []).append(app)
    for gname, apps in by_group.items():
        grp = cell.identity_groups.get(gname)
        count = grp.count if grp is not None else 0
        held = {}
        for app in apps:
            S.check('C05:instance_refers_to_stale_group_object' + tag,
                    grp is None or app.identity_group_ref is grp,
                    {'app': app.name, 'group': gname})
            if app.identity is not None:
                S.reach('identity_held')
                S.check('C05:duplicate_identity' + tag,
                        app.identity not in held,
                        {'app': app.name, 'other': held.get(app.identity),
                         'identity': app.identity})
                held[app.identity] = app.name
                S.check('C05:identity_out_of_range' + tag,
                        0 <= app.identity < count,
                        {'app': app.name, 'identity': app.identity,
                         'count': count})
                if app.server is None:
                    S.reach('unplaced_with_identity')
                S.check('C05:unplaced_instance_holds_identity' + tag,
                        app.server is not None,
                        {'app': app.name, 'identity': app.identity})
            else:
                S.check('C05:placed_instance_without_identity' + tag,
                        app.server is None, {'app': app.name})
        if grp is not None:
            S.check('C05:available_set_wrong' + tag,
                    set(grp.available) == set(range(count)) - set(held),
                    {'group': gname, 'available': sorted(grp.available),
                     'held': sorted(held), 'count': count})


# ---------------------------------------------------------------- C08

def c08_oracle(W, pre, placement, tag=''):
    """pre: {name: dict(server, state, since(z3/int), timeout, flags)}."""
    import sys as _sys
    S = W.S
    after = {n: sa for (n, _sb, _eb, sa, _ea) in placement}
    now = VT.now
    expiries = []
    for name, info in pre.items():
        app = W.cell.apps.get(name)
        if app is None or name not in after:
            continue
        st = info['state']
        if info['blacklisted']:
            S.check('C08:blacklisted_instance_is_placed' + tag,
                    after[name] is None, {'app': name})
            S.reach('blacklisted_kept_off')
            continue
        if info['server'] is None:
            continue
        if (app.final_rank == _sys.maxsize and configured_cap(W, name)) \
                or info['identity_invalid'] or info['renew']:
            continue
        if st == 'down':
            to = info['timeout']
            since = info['since']
            if to is None:
                exp = S.z(0)
            else:
                exp = S.z(since) + S.z(to)
            kept = after[name] == info['server']
            if kept:
                S.reach('kept_on_down_server')
                S.check('C08:kept_on_down_server_after_retention' + tag,
                        exp > now, {'app': name})
                expiries.append(exp)
            else:
                S.reach('moved_off_down_server')
                S.check('C08:lost_placement_before_retention_expired' + tag,
                        exp <= now, {'app': name, 'after': after[name]})
        elif st == 'frozen':
            if info['unschedule']:
                S.reach('unschedule_on_frozen')
                continue
            S.reach('on_frozen_server')
            S.check('C08:instance_taken_off_frozen_server' + tag,
                    after[name] == info['server'],
                    {'app': name, 'after': after[name]})
    for (name, sb, _eb, sa, _ea) in placement:
        if sa is not None and sa != sb:
            st = pre['__servers__'].get(sa)
            S.check('C08:new_instance_on_frozen_or_down_server' + tag,
                    st == 'up', {'app': name, 'server': sa, 'state': st})
    # eviction branch never touches a server that is not up
    for (op, sname, aname, branch) in W.log:
        if branch == 'fp:evict_put' or (op == 'remove' and
                                        branch.startswith('fp:') and
                                        'evicted_app_server.remove' in branch):
            S.check('C08:eviction_branch_used_non_up_server' + tag,
                    pre['__servers__'].get(sname) == 'up',
                    {'server': sname, 'app': aname, 'op': op})
    # next_event_at is the earliest pending expiry
    nea = W.cell.next_event_at
    if expiries:
        m = expiries[0]
        for e in expiries[1:]:
            m = z3.If(e < m, e, m)
        is_inf = type(nea).__name__ == '_Inf' or (
            isinstance(nea, float) and nea == float('inf'))
        S.check('C08:next_event_missing' + tag, not is_inf)
        if not is_inf:
            # waking up earlier than needed is harmless (an instance that was
            # also blacklisted may have contributed its expiry)
            S.check('C08:next_event_later_than_earliest_retention_expiry' + tag,
                    S.z(nea) <= m)


def c08_pre(W):
    out = pre_info(W)
    mem = W.cell.members()
    for name, app in W.cell.apps.items():
        srv = mem.get(app.server) if app.server else None
        out[name]['state'] = srv.state.value if srv is not None else None
        out[name]['since'] = None
        if srv is not None and srv.state is W.sch.State.down:
            j = W.servers.index(srv)
            out[name]['since'] = W.down_since[j]
        out[name]['timeout'] = app.data_retention_timeout
        # an operator's unschedule request is tracked by the harness (it is
        # consumed when the instance leaves the server it was marked on); the
        # flag on the object under test may be stale
        if hasattr(W, 'marks'):
            out[name]['unschedule'] = name in W.marks
        else:
            out[name]['unschedule'] = app.unschedule
    out['__servers__'] = {n: s.state.value for n, s in mem.items()}
    return out
