"""G2 - the real Master / Loader on an in-memory storage backend.

``MemBackend`` implements ``treadmill.scheduler.backend.Backend``: a dict of
path -> node (value, ctime tick, children derived from paths), a write log, and
crash injection (``Crash`` raised *before* write number k, k a solver
variable).  ``ctime`` objects keep ``/ 1000.0`` exact (integer ticks).
"""

import logging
import os

import z3

import repo  # noqa: F401
import g1
import symx
from g1 import NOW, VT, VMAX

logging.disable(logging.WARNING)


class Crash(BaseException):
    """The master process stops here."""


class Tick:
    """znode ctime in ms whose ``/ 1000.0`` is kept as the integer tick."""
    __slots__ = ('v',)

    def __init__(self, v):
        self.v = v

    def __truediv__(self, _k):
        return self.v


class Meta:
    __slots__ = ('ctime', 'mtime')

    def __init__(self, ctime):
        self.ctime = Tick(ctime)
        self.mtime = Tick(ctime)


class _Event:
    def set(self):
        pass

    def clear(self):
        pass

    def wait(self, *_a):
        return True


def _norm(path):
    if path != '/' and path.endswith('/'):
        path = path[:-1]
    return path


class MemBackend:
    """See module docstring.  Registered as a virtual subclass of Backend."""

    def __init__(self):
        self.nodes = {'/': [None, 0]}
        self.tick = 10 ** 6          # ctimes of nodes created during the run
        self.writes = 0
        self.crash_at = None         # python int / symbolic int / None
        self.log = []
        self.armed = False

    # ---- helpers
    def _write(self, op, path):
        if self.armed and self.crash_at is not None:
            if self.writes == self.crash_at:
                self.log.append(('CRASH-BEFORE', op, path))
                raise Crash()
        if self.armed:
            self.writes += 1
        self.log.append((op, path))

    def _create(self, path, value, ctime=None):
        parent = os.path.dirname(path)
        if parent and parent != path and parent not in self.nodes:
            self._create(parent, None)
        if ctime is None:
            self.tick += 1
            ctime = self.tick
        self.nodes[path] = [value, ctime]

    def seed(self, path, value=None, ctime=None):
        """Harness-side initialisation (not a logged write)."""
        self._create(_norm(path), value, ctime)

    def unseed(self, path):
        path = _norm(path)
        for p in [p for p in self.nodes
                  if p == path or p.startswith(path + '/')]:
            del self.nodes[p]

    # ---- Backend interface
    def list(self, path):
        from treadmill.scheduler import backend as be
        path = _norm(path)
        if path not in self.nodes:
            raise be.ObjectNotFoundError()
        pre = path.rstrip('/') + '/'
        return sorted(p[len(pre):] for p in self.nodes
                      if p.startswith(pre) and '/' not in p[len(pre):]
                      and p != path)

    def get(self, path):
        from treadmill.scheduler import backend as be
        path = _norm(path)
        if path not in self.nodes:
            raise be.ObjectNotFoundError()
        return self.nodes[path][0]

    def get_with_metadata(self, path):
        from treadmill.scheduler import backend as be
        path = _norm(path)
        if path not in self.nodes:
            raise be.ObjectNotFoundError()
        v, c = self.nodes[path]
        return v, Meta(c)

    def get_default(self, path, default=None):
        path = _norm(path)
        if path not in self.nodes:
            return default
        return self.nodes[path][0]

    def put(self, path, value):
        path = _norm(path)
        self._write('put', path)
        if path in self.nodes:
            self.nodes[path][0] = value
        else:
            self._create(path, value)

    def exists(self, path):
        return _norm(path) in self.nodes

    def ensure_exists(self, path):
        path = _norm(path)
        if path not in self.nodes:
            self._write('create', path)
            self._create(path, None)

    def delete(self, path):
        path = _norm(path)
        doomed = [p for p in self.nodes
                  if p == path or p.startswith(path + '/')]
        if doomed:
            self._write('delete', path)
        for p in doomed:
            del self.nodes[p]

    def update(self, path, data, check_content=False):
        from treadmill.scheduler import backend as be
        path = _norm(path)
        if path not in self.nodes:
            raise be.ObjectNotFoundError()
        if check_content and self.nodes[path][0] == data:
            return
        self._write('update', path)
        self.nodes[path][0] = data

    def event_object(self):
        return _Event()

    def clone(self):
        b = MemBackend()
        b.nodes = {p: list(v) for p, v in self.nodes.items()}
        b.tick = self.tick
        return b


_ORIG = {}


def install(S, D=3):
    """Stubs for the master process: clock, resources passthrough for ints,
    reference blob."""
    sch = g1.install(S, D)
    from treadmill.scheduler import loader, master, backend as be
    if not _ORIG:
        _ORIG['resources'] = loader.resources
        _ORIG['save'] = master.Master._save_placement
    be.Backend.register(MemBackend)
    loader.time = VT
    master.time = VT
    orig_res = _ORIG['resources']

    def resources(data):
        """Unit strings go through the real parsers; integers supplied by the
        harness (solver variables) are taken as already parsed."""
        out = []
        parsed = None
        for k in ['memory', 'cpu', 'disk']:
            v = data.get(k, 0)
            if isinstance(v, str):
                if parsed is None:
                    parsed = orig_res(
                        {kk: (vv if isinstance(vv, str) else 0)
                         for kk, vv in data.items()
                         if kk in ('memory', 'cpu', 'disk')})
                out.append(parsed[['memory', 'cpu', 'disk'].index(k)])
            else:
                out.append(v)
        return out

    loader.resources = resources

    def _save_placement(self, placement):
        # reference blob: json+zlib of the tuples; kept as a write only
        self.backend.put('/placement', None)

    master.Master._save_placement = _save_placement
    return sch, loader, master


SERVERS = ['s0', 's1', 's2']
RACKS = ['rack:r0', 'rack:r1']
APPS = ['proid.web#%010d' % i for i in range(4)]


def base_store(S, spec):
    """Stored state described by ``spec`` (shape concrete, numbers symbolic).

    spec keys: nservers, apps: [{recorded: [server idx...], identity, ig,
    schedule_once, retention, priority}], presence: [bool], states: [..],
    igroups {g: count}.
    """
    b = MemBackend()
    ns = spec.get('nservers', 2)
    for p in ['/allocations', '/blackedout.servers', '/buckets', '/cell',
              '/events', '/finished', '/identity-groups', '/partitions',
              '/placement', '/running', '/scheduled', '/server.presence',
              '/servers', '/traits', '/blackedout.apps']:
        b.seed(p, None, 1)
    b.nodes['/traits'][0] = list(spec.get('traits', []))
    for name in spec.get('blackedout', []):
        b.seed('/blackedout.servers/' + name, None, 2)
    b.nodes['/allocations'][0] = spec.get('allocations', [])
    b.nodes['/blackedout.apps'][0] = spec.get('apps_blacklist', [])
    for r in RACKS:
        b.seed('/buckets/' + r, {}, 1)
        b.seed('/cell/' + r, None, 1)
    W = g1.World()
    W.S = S
    W.backend = b
    W.spec = spec
    W.cap = {}
    for j in range(ns):
        name = SERVERS[j]
        sv = spec.get('servers', [{}] * ns)[j]
        if sv.get('absent'):
            continue
        cap = sv.get('memory')
        if cap is None:
            cap = S.int('cap%d' % j, 0, spec.get('vmax', VMAX))
        W.cap[name] = cap
        b.seed('/servers/' + name,
               {'parent': RACKS[j % 2], 'memory': cap, 'cpu': 1000,
                'disk': 100000, 'up_since': NOW - 5000,
                'partition': sv.get('partition'),
                'traits': sv.get('traits', [])}, 2)
        pres = spec.get('presence', [True] * ns)[j]
        if pres:
            pc = S.int('presence_ctime%d' % j, 10, 10 ** 5)
            b.seed('/server.presence/' + name, {}, pc)
        st = spec.get('states', [None] * ns)[j]
        if st is not None:
            since = S.int('since%d' % j, NOW - g1.TSPAN, NOW)
            b.seed('/placement/' + name, {'state': st, 'since': since}, 3)
        elif spec.get('placement_nodes', True):
            b.seed('/placement/' + name, None, 3)
    W.demand = {}
    for i, ap in enumerate(spec['apps']):
        name = APPS[i]
        if ap.get('unscheduled'):
            pass
        else:
            dem = ap.get('memory')
            if dem is None:
                dem = S.int('dem%d' % i, 0, spec.get('vmax', VMAX))
            W.demand[name] = dem
            man = {'memory': dem, 'cpu': 10, 'disk': 100,
                   'affinity': ap.get('aff', 'web')}
            if 'priority' in ap:
                man['priority'] = ap['priority']
            else:
                man['priority'] = 50 - i
            if ap.get('ig'):
                man['identity_group'] = ap['ig']
            if ap.get('schedule_once'):
                man['schedule_once'] = True
            if ap.get('retention') is not None:
                man['data_retention_timeout'] = ap['retention']
            if ap.get('lease'):
                man['lease'] = ap['lease']
            if ap.get('traits'):
                man['traits'] = list(ap['traits'])
            if ap.get('affinity_limits'):
                man['affinity_limits'] = dict(ap['affinity_limits'])
            b.seed('/scheduled/' + name, man, 5)
        for j in ap.get('recorded', []):
            ct = S.int('placement_ctime%d_%d' % (i, j), 10, 10 ** 5)
            data = {'expires': ap.get('expires', NOW + 500 + i)}
            data['identity'] = ap.get('identity')
            b.seed('/placement/%s/%s' % (SERVERS[j], name), data, ct)
    for g, count in spec.get('igroups', {}).items():
        b.seed('/identity-groups/' + g, {'count': count}, 4)
    return W


def new_master(W, backend=None):
    S = W.S
    now = VT.now
    first = not getattr(W, 'installed', False)
    _sch, _loader, master = install(S)
    if not first:
        VT.now = now          # a restarted master does not turn back time
    W.installed = True
    if getattr(W, 'events_dir', None):
        # trace events are posted for real (files in a scratch directory)
        import fsx
        if not os.path.isdir(W.events_dir):
            W.events_dir = fsx.fresh()
        for sub in ('apps', 'servers'):
            os.makedirs(os.path.join(W.events_dir, sub), exist_ok=True)
        m = master.Master(backend if backend is not None else W.backend,
                          'cell',
                          app_events_dir=os.path.join(W.events_dir, 'apps'),
                          server_events_dir=os.path.join(W.events_dir,
                                                         'servers'))
    else:
        m = master.Master(backend if backend is not None else W.backend,
                          'cell')
    return m


def start(W, m):
    m.load_model()
    m.init_schedule()


def stored_placement(b):
    """{(server, app): data} for every /placement/<server>/<app>."""
    out = {}
    for p, (v, _c) in b.nodes.items():
        parts = p.split('/')
        if len(parts) == 4 and parts[1] == 'placement':
            out[(parts[2], parts[3])] = v
    return out


def c09_oracle(W, m, tag=''):
    S = W.S
    stored = stored_placement(W.backend)
    model = {}
    for name, app in m.cell.apps.items():
        if app.server:
            model[(app.server, name)] = app
    for key in stored:
        S.check('C09:published_entry_not_in_model' + tag, key in model,
                {'server': key[0], 'app': key[1],
                 'model_server': getattr(m.cell.apps.get(key[1]), 'server',
                                         'unscheduled')})
    for key, app in model.items():
        S.check('C09:placed_instance_not_published' + tag, key in stored,
                {'server': key[0], 'app': key[1]})
        data = stored[key]
        S.check('C09:published_entry_has_no_data' + tag,
                isinstance(data, dict), {'app': key[1]})
        S.check('C09:published_identity_differs_from_model' + tag,
                data.get('identity') == app.identity,
                {'app': key[1], 'stored': data.get('identity'),
                 'model': app.identity})
        se, me = data.get('expires'), app.placement_expiry
        if se is None or me is None:
            S.check('C09:published_expiry_differs_from_model' + tag,
                    se is None and me is None, {'app': key[1]})
        else:
            S.check('C09:published_expiry_differs_from_model' + tag,
                    S.z(se) == S.z(me), {'app': key[1]})
    apps_seen = {}
    for (srv, name) in stored:
        S.check('C10:instance_published_under_two_servers' + tag,
                name not in apps_seen, {'app': name,
                                        'servers': [apps_seen.get(name), srv]})
        apps_seen[name] = srv


def no_duplicates(W, tag=''):
    S = W.S
    seen = {}
    for (srv, name) in stored_placement(W.backend):
        S.check('C10:instance_published_under_two_servers' + tag,
                name not in seen, {'app': name,
                                   'servers': [seen.get(name), srv]})
        seen[name] = srv


def cycle(W, m, tick=10):
    """One master cycle as run_loop does it, with the clock advanced."""
    VT.now += tick
    m.reschedule()
    try:
        m.check_placement_integrity()
    except AssertionError as e:
        # the master's own runtime self-check: published placement != model
        W.S.fail('C09:master_placement_integrity_check_fails',
                 {'error': repr(e)})


# ------------------------------------------------------------- ZK-level events

def apply_event(W, m, ev):
    S, b = W.S, W.backend
    kind = ev[0]
    W.nev = getattr(W, 'nev', 0) + 1
    if kind == 'none':
        return
    if kind == 'schedule':            # a new instance is scheduled
        i = ev[1]
        if 'regime_dems' in W.spec:
            dem = W.spec['regime_dems'][i]
        else:
            dem = S.int('dem%d' % i, 0, W.spec.get('vmax', VMAX))
        W.demand[APPS[i]] = dem
        man = {'memory': dem, 'cpu': 10, 'disk': 100, 'affinity': 'web',
               'priority': 60}
        if len(ev) > 2:
            man.update(ev[2])
        b.seed('/scheduled/' + APPS[i], man)
        m.process_scheduled(b.list('/scheduled'))
    elif kind == 'delete':
        b.unseed('/scheduled/' + APPS[ev[1]])
        m.process_scheduled(b.list('/scheduled'))
    elif kind == 'presence_down':
        b.unseed('/server.presence/' + SERVERS[ev[1]])
        m.process_server_presence(b.list('/server.presence'))
    elif kind == 'presence_up':
        b.seed('/server.presence/' + SERVERS[ev[1]], {})
        m.process_server_presence(b.list('/server.presence'))
    elif kind == 'server_edit':       # record changed + servers event
        j = ev[1]
        data = dict(b.get('/servers/' + SERVERS[j]))
        if 'regime_dems' in W.spec:
            newcap = data['memory'] - 2
        else:
            newcap = S.int('newcap%d' % j, 0, W.spec.get('vmax', VMAX))
        if len(ev) > 2 and ev[2] == 'shrink' and 'regime_dems' not in W.spec:
            S.require(S.z(newcap) < S.z(data['memory']))
        data['memory'] = newcap
        W.cap[SERVERS[j]] = newcap
        b.nodes['/servers/' + SERVERS[j]][0] = data
        _post(W, m, 'servers', [SERVERS[j]])
    elif kind == 'server_reparent':   # the server record names another rack
        j = ev[1]
        data = dict(b.get('/servers/' + SERVERS[j]))
        data['parent'] = ev[2]
        b.nodes['/servers/' + SERVERS[j]][0] = data
        _post(W, m, 'servers', [SERVERS[j]])
    elif kind == 'server_relabel':    # the server moves to another partition
        j = ev[1]
        data = dict(b.get('/servers/' + SERVERS[j]))
        data['partition'] = ev[2]
        b.nodes['/servers/' + SERVERS[j]][0] = data
        _post(W, m, 'servers', [SERVERS[j]])
    elif kind == 'identity_groups':
        g, count = ev[1], ev[2]
        if count is None:
            b.unseed('/identity-groups/' + g)
        else:
            b.unseed('/identity-groups/' + g)
            b.seed('/identity-groups/' + g, {'count': count})
        _post(W, m, 'identity_groups', None)
    elif kind == 'apps_blacklist':
        b.nodes['/blackedout.apps'][0] = list(ev[1])
        _post(W, m, 'apps_blacklist', None)
    elif kind == 'app_resize':
        # the manifest of a scheduled instance is rewritten with another size
        # and an 'apps' event names it (Master._handle_apps_event -> load_app).
        # W.demand keeps what the scheduler was told at admission.
        i = ev[1]
        man = dict(b.get('/scheduled/' + APPS[i]))
        man['memory'] = S.int('resized_dem%d' % i, 0, W.spec.get('vmax', VMAX))
        b.nodes['/scheduled/' + APPS[i]][0] = man
        W.resized = getattr(W, 'resized', {})
        W.resized[APPS[i]] = man['memory']
        _post(W, m, 'apps', [APPS[i]])
    elif kind == 'apps_event':
        # an 'apps' event naming instances (some of which may be gone from
        # /scheduled by the time it is handled)
        _post(W, m, 'apps', [APPS[i] for i in ev[1]])
    elif kind == 'unschedule_silently':
        # the instance is unscheduled, the master has not seen the children
        # watch of /scheduled yet
        b.unseed('/scheduled/' + APPS[ev[1]])
    elif kind == 'scheduled_watch':
        m.process_scheduled(b.list('/scheduled'))
    elif kind == 'allocations':
        b.nodes['/allocations'][0] = ev[1]
        _post(W, m, 'allocations', None)
    elif kind == 'server_state':
        _post(W, m, 'server_state', [SERVERS[ev[1]], ev[2], list(ev[3])
                                     if len(ev) > 3 else []])
    else:
        raise symx.HarnessError('unknown event %r' % (ev,))


def _post(W, m, resource, data):
    b = W.backend
    seq = getattr(W, 'seq', 0) + 1
    W.seq = seq
    node = '000-%s-%010d' % (resource, seq)
    b.seed('/events/' + node, data)
    m.process_events([node])
