"""memzk - an in-memory stand-in for kazoo.client.KazooClient.

One ``Tree`` is shared by any number of ``Client`` objects (one session each).
Kept: znode bytes, ephemeral owner session, ctime/mtime ticks, per-parent
sequence counters, NoNodeError / NodeExistsError / NotEmptyError, data and
children watches (recorded; fired by the harness), session expiry (removes the
session's ephemerals), a ``before_call`` hook where an adversary step may run,
and a log of every mutating call with (actor session, owner session).
"""

import kazoo.exceptions as kx


class Tick:
    """ctime / mtime in ms; ``/ 1000.0`` keeps the integer tick (no floats)."""
    __slots__ = ('v',)

    def __init__(self, v):
        self.v = v

    def __truediv__(self, _k):
        return self.v

    def __int__(self):
        return int(self.v)


class Stat:
    __slots__ = ('ctime', 'mtime', 'owner_session_id', 'ephemeralOwner',
                 'version', 'last_modified', 'created', 'numChildren',
                 'children_count', 'data_length', 'dataLength')

    def __init__(self, node, nchildren=0):
        self.ctime = Tick(node.ctime)
        self.mtime = Tick(node.mtime)
        self.created = node.ctime
        self.last_modified = node.mtime
        if hasattr(node.mtime, 'v'):
            self.mtime = Tick(node.mtime.v)
        self.owner_session_id = node.owner
        self.ephemeralOwner = node.owner or 0
        self.version = node.version
        self.numChildren = self.children_count = nchildren
        self.data_length = self.dataLength = len(node.data or b'')


class Node:
    __slots__ = ('data', 'owner', 'ctime', 'mtime', 'version', 'seq')

    def __init__(self, data, owner, ctime):
        self.data = data
        self.owner = owner        # session id for ephemerals, else None
        self.ctime = ctime
        self.mtime = ctime
        self.version = 0
        self.seq = 0


class WatchedEvent:
    def __init__(self, type_, path):
        self.type = type_
        self.path = path
        self.state = 'CONNECTED'


class Crash(BaseException):
    """The client process stops here."""


class Tree:
    def __init__(self):
        self.nodes = {'/': Node(b'', None, 0)}
        self.tick = 10 ** 6
        self.log = []               # (op, path, actor, owner-before)
        self.data_watches = []      # (client, path, func)
        self.child_watches = []
        self.before_call = None     # f(client, op, path)
        self.writes = 0
        self.crash_at = None
        self.armed = False

    def _now(self):
        self.tick += 1
        return self.tick

    def children(self, path):
        pre = '/' if path == '/' else path + '/'
        return sorted(p[len(pre):] for p in self.nodes
                      if p != path and p.startswith(pre) and
                      '/' not in p[len(pre):])

    def seed(self, path, data=b'', owner=None, ctime=None):
        parent = path.rsplit('/', 1)[0] or '/'
        if parent not in self.nodes:
            self.seed(parent)
        n = Node(data, owner, self._now() if ctime is None else ctime)
        self.nodes[path] = n
        return n

    def expire(self, session):
        """Session expiry: its ephemeral nodes vanish."""
        gone = [p for p, n in self.nodes.items() if n.owner == session]
        for p in gone:
            del self.nodes[p]
            self.log.append(('expired', p, None, session))
        return gone

    def dump(self):
        return {p: (n.data, n.owner) for p, n in self.nodes.items()}


class _Handler:
    def event_object(self):
        import threading
        return threading.Event()


class Client:
    def __init__(self, tree, session):
        self.tree = tree
        self.session = session
        self.client_id = (session, b'pwd')
        self.handler = _Handler()
        self.data_watch_calls = []
        self.listeners = []

    # ---- plumbing
    def _hook(self, op, path):
        t = self.tree
        if t.before_call is not None:
            t.before_call(self, op, path)

    def _write(self, op, path, owner_before):
        t = self.tree
        if t.armed and t.crash_at is not None:
            if t.writes == t.crash_at:
                t.log.append(('CRASH-BEFORE', op, path, self.session))
                if getattr(t, 'fault', 'crash') == 'error':
                    t.writes += 1
                    raise kx.ConnectionLoss()
                raise Crash()
        if t.armed:
            t.writes += 1
        t.log.append((op, path, self.session, owner_before))

    # ---- acl helpers (treadmill's kazoo subclass)
    def make_servers_acl(self):
        return None

    def make_servers_del_acl(self):
        return None

    def make_default_acl(self, acl):
        return acl

    def add_listener(self, f):
        self.listeners.append(f)

    # ---- reads
    def exists(self, path, watch=None):
        self._hook('exists', path)
        n = self.tree.nodes.get(path)
        if n is None:
            return None
        return Stat(n, len(self.tree.children(path)))

    def get(self, path, watch=None):
        self._hook('get', path)
        n = self.tree.nodes.get(path)
        if n is None:
            raise kx.NoNodeError()
        return n.data, Stat(n, len(self.tree.children(path)))

    def get_children(self, path, watch=None):
        self._hook('get_children', path)
        if path not in self.tree.nodes:
            raise kx.NoNodeError()
        return self.tree.children(path)

    # ---- writes
    def ensure_path(self, path, acl=None):
        self._hook('ensure_path', path)
        if path not in self.tree.nodes:
            self._write('create', path, None)
            self.tree.seed(path)
        return True

    def create(self, path, value=b'', acl=None, ephemeral=False,
               sequence=False, makepath=False):
        self._hook('create', path)
        t = self.tree
        parent = path.rsplit('/', 1)[0] or '/'
        if parent not in t.nodes:
            if not makepath:
                raise kx.NoNodeError()
        if sequence:
            pn = t.nodes.get(parent)
            seq = pn.seq if pn is not None else 0
            if pn is not None:
                pn.seq += 1
            path = '%s%010d' % (path, seq)
        if path in t.nodes:
            raise kx.NodeExistsError()
        self._write('create', path, None)
        if parent not in t.nodes:
            t.seed(parent)
        t.seed(path, value, self.session if ephemeral else None)
        return path

    def set(self, path, value, version=-1):
        self._hook('set', path)
        n = self.tree.nodes.get(path)
        if n is None:
            raise kx.NoNodeError()
        self._write('set', path, n.owner)
        n.data = value
        n.mtime = self.tree._now()
        n.version += 1
        return Stat(n)

    def set_acls(self, path, acls, version=-1):
        if path not in self.tree.nodes:
            raise kx.NoNodeError()

    def delete(self, path, version=-1, recursive=False):
        self._hook('delete', path)
        t = self.tree
        n = t.nodes.get(path)
        if n is None:
            raise kx.NoNodeError()
        kids = t.children(path)
        if kids and not recursive:
            raise kx.NotEmptyError()
        self._write('delete', path, n.owner)
        for p in [p for p in t.nodes if p == path or p.startswith(path + '/')]:
            del t.nodes[p]
        return True

    # ---- watches: recorded, fired by the harness
    def DataWatch(self, path, func=None):     # noqa: N802
        def deco(f):
            self.tree.data_watches.append((self, path, f))
            return f
        if func is not None:
            return deco(func)
        return deco

    def ChildrenWatch(self, path, func=None):     # noqa: N802
        def deco(f):
            self.tree.child_watches.append((self, path, f))
            return f
        if func is not None:
            return deco(func)
        return deco
