"""pyeval - a small AST-to-z3 evaluator for integer kernels.

Executes the *current* source of a function (``inspect.getsource`` at run
time) over z3 Int terms.  State is merged at control-flow joins with If-terms
(no path enumeration); ``while`` loops are unrolled ``unroll`` times and the
negated loop condition after the last unrolling is returned as an *unwinding
obligation* that the caller must prove.  Digit strings are lists of digit-index
terms with a symbolic length (``DigitSeq``).

Supported: assignments, augmented assignments, if/else, while, for over a
DigitSeq, return, raise (recorded as a reachability obligation), integer
+ - * // % ** (concrete exponent or If-table), comparisons, not/and/or,
len(), list literal / append / reverse, ''.join(list), alphabet[i],
alphabet.index(c).
"""

import ast
import inspect
import textwrap

import z3


class Alphabet:
    """A concrete alphabet; characters are represented by their index."""
    def __init__(self, text):
        self.text = text
        assert len(set(text)) == len(text)

    def __len__(self):
        return len(self.text)


class DigitSeq:
    """digits[0:n] (z3 Int terms), n a z3 Int term <= len(slots)."""
    def __init__(self, slots, n):
        self.slots = list(slots)
        self.n = n


class ConstTable:
    """base ** e for a symbolic e in a bounded range."""
    def __init__(self, key, table):
        self.key = key
        self.table = table


class Evaluator:
    def __init__(self, func, unroll):
        src = textwrap.dedent(inspect.getsource(func))
        self.tree = ast.parse(src).body[0]
        self.unroll = unroll
        self.obligations = []      # (description, z3 Bool that must be valid)
        self.raises = []           # (guard, text) - must be unreachable
        self.returns = []          # (guard, value)

    # -------------------------------------------------------------- helpers
    @staticmethod
    def _merge(g, a, b):
        """value if g else old value"""
        if a is b:
            return a
        if isinstance(a, DigitSeq) or isinstance(b, DigitSeq):
            assert isinstance(a, DigitSeq) and isinstance(b, DigitSeq)
            k = max(len(a.slots), len(b.slots))
            sa = a.slots + [z3.IntVal(0)] * (k - len(a.slots))
            sb = b.slots + [z3.IntVal(0)] * (k - len(b.slots))
            return DigitSeq([z3.If(g, x, y) for x, y in zip(sa, sb)],
                            z3.If(g, a.n, b.n))
        if isinstance(a, (Alphabet,)) or a is None or b is None:
            return a if a is not None else b
        return z3.If(g, _z(a), _z(b))

    def run(self, **args):
        env = dict(args)
        self._block(self.tree.body, env, z3.BoolVal(True))
        return self.returns

    # ------------------------------------------------------------ statements
    def _block(self, stmts, env, guard):
        """Executes stmts under guard; returns the guard under which control
        continues past the block (i.e. not returned / raised)."""
        live = guard
        for st in stmts:
            live = self._stmt(st, env, live)
        return live

    def _stmt(self, st, env, g):
        if isinstance(st, ast.Expr):
            if isinstance(st.value, ast.Constant):
                return g
            self._expr(st.value, env, g)
            return g
        if isinstance(st, ast.Assign):
            v = self._expr(st.value, env, g)
            name = st.targets[0].id
            env[name] = self._merge(g, v, env[name]) if name in env else v
            return g
        if isinstance(st, ast.AugAssign):
            cur = env[st.target.id]
            v = self._binop(st.op, cur, self._expr(st.value, env, g))
            env[st.target.id] = self._merge(g, v, cur)
            return g
        if isinstance(st, ast.If):
            c = _b(self._expr(st.test, env, g))
            if z3.is_true(z3.simplify(c)):
                return self._block(st.body, env, g)
            if z3.is_false(z3.simplify(c)):
                return self._block(st.orelse, env, g)
            e1 = dict(env)
            g1 = self._block(st.body, e1, z3.And(g, c))
            e2 = dict(env)
            g2 = self._block(st.orelse, e2, z3.And(g, z3.Not(c)))
            for k in set(e1) | set(e2):
                a, b = e1.get(k), e2.get(k)
                if a is None or b is None:
                    env[k] = a if a is not None else b
                else:
                    env[k] = self._merge(c, a, b)
            return z3.Or(g1, g2)
        if isinstance(st, ast.While):
            live = g
            for _i in range(self.unroll):
                c = _b(self._expr(st.test, env, live))
                live_in = z3.And(live, c)
                e1 = dict(env)
                self._block(st.body, e1, live_in)
                for k in e1:
                    if k in env:
                        env[k] = self._merge(live_in, e1[k], env[k])
                    else:
                        env[k] = e1[k]
            c = _b(self._expr(st.test, env, live))
            self.obligations.append(('unwinding: loop at line %d exits after '
                                     '%d iterations' % (st.lineno, self.unroll),
                                     z3.Implies(g, z3.Not(c))))
            return g
        if isinstance(st, ast.For):
            seq = self._expr(st.iter, env, g)
            assert isinstance(seq, DigitSeq)
            for i, d in enumerate(seq.slots):
                inside = z3.And(g, z3.IntVal(i) < seq.n)
                e1 = dict(env)
                e1[st.target.id] = d
                self._block(st.body, e1, inside)
                for k in e1:
                    if k == st.target.id:
                        continue
                    if k in env:
                        env[k] = self._merge(inside, e1[k], env[k])
                    else:
                        env[k] = e1[k]
            return g
        if isinstance(st, ast.Return):
            self.returns.append((g, self._expr(st.value, env, g)))
            return z3.BoolVal(False)
        if isinstance(st, ast.Raise):
            self.raises.append((g, ast.unparse(st)))
            return z3.BoolVal(False)
        raise NotImplementedError(ast.dump(st)[:80])

    # ----------------------------------------------------------- expressions
    def _binop(self, op, a, b):
        if isinstance(op, ast.Add):
            return _z(a) + _z(b)
        if isinstance(op, ast.Sub):
            return _z(a) - _z(b)
        if isinstance(op, ast.Mult):
            if isinstance(b, ConstTable):
                a, b = b, a
            if isinstance(a, ConstTable):
                # (table of constants) * x  ->  If-chain of const * x: linear
                out = z3.IntVal(0)
                for k in sorted(a.table, reverse=True):
                    out = z3.If(a.key == k, a.table[k] * _z(b), out)
                return out
            return _z(a) * _z(b)
        if isinstance(op, ast.FloorDiv):
            return _z(a) / _z(b)          # z3 Int division (b > 0: floor)
        if isinstance(op, ast.Mod):
            return _z(a) % _z(b)
        if isinstance(op, ast.Pow):
            base = z3.simplify(_z(a))
            e = z3.simplify(_z(b))
            assert z3.is_int_value(base)
            if z3.is_int_value(e):
                return z3.IntVal(base.as_long() ** e.as_long())
            return ConstTable(e, {k: base.as_long() ** k
                                  for k in range(0, self.unroll + 2)})
        raise NotImplementedError(op)

    def _expr(self, e, env, g):
        if isinstance(e, ast.Constant):
            if isinstance(e.value, bool):
                return z3.BoolVal(e.value)
            if isinstance(e.value, int):
                return z3.IntVal(e.value)
            if e.value is None:
                return None
            if e.value == '':
                return ''
            raise NotImplementedError(repr(e.value))
        if isinstance(e, ast.Name):
            return env[e.id]
        if isinstance(e, ast.BinOp):
            if isinstance(e.op, ast.Mod) and isinstance(e.left, ast.Constant) \
                    and isinstance(e.left.value, str):
                return None     # message formatting
            return self._binop(e.op, self._expr(e.left, env, g),
                               self._expr(e.right, env, g))
        if isinstance(e, ast.UnaryOp) and isinstance(e.op, ast.Not):
            return z3.Not(_b(self._expr(e.operand, env, g)))
        if isinstance(e, ast.BoolOp):
            vs = [_b(self._expr(v, env, g)) for v in e.values]
            return z3.And(*vs) if isinstance(e.op, ast.And) else z3.Or(*vs)
        if isinstance(e, ast.Compare):
            left = self._expr(e.left, env, g)
            out = []
            for op, rt in zip(e.ops, e.comparators):
                right = self._expr(rt, env, g)
                if isinstance(op, (ast.Is, ast.IsNot)):
                    r = (left is None) == (right is None) and \
                        (left is None or left is right)
                    out.append(z3.BoolVal(r if isinstance(op, ast.Is)
                                          else not r))
                else:
                    a, b = _z(left), _z(right)
                    out.append({ast.Eq: a == b, ast.NotEq: a != b,
                                ast.Lt: a < b, ast.LtE: a <= b,
                                ast.Gt: a > b, ast.GtE: a >= b}[type(op)])
                left = right
            return z3.And(*out) if len(out) > 1 else out[0]
        if isinstance(e, ast.List):
            assert not e.elts
            return DigitSeq([], z3.IntVal(0))
        if isinstance(e, ast.Subscript):
            base = self._expr(e.value, env, g)
            idx = self._expr(e.slice, env, g)
            if isinstance(base, Alphabet):
                self.obligations.append(
                    ('alphabet index in range at line %d' % e.lineno,
                     z3.Implies(g, z3.And(_z(idx) >= 0,
                                          _z(idx) < len(base)))))
                return _z(idx)          # the character IS its index
            raise NotImplementedError('subscript')
        if isinstance(e, ast.Call):
            f = e.func
            if isinstance(f, ast.Name) and f.id == 'len':
                v = self._expr(e.args[0], env, g)
                if isinstance(v, Alphabet):
                    return z3.IntVal(len(v))
                return v.n
            if isinstance(f, ast.Attribute):
                recv = self._expr(f.value, env, g) \
                    if not (isinstance(f.value, ast.Constant)) else ''
                if f.attr == 'append':
                    x = self._expr(e.args[0], env, g)
                    slots = list(recv.slots)
                    # write at position n under the guard
                    slots.append(z3.IntVal(0))
                    new = [z3.If(z3.And(g, recv.n == i), _z(x), s)
                           for i, s in enumerate(slots)]
                    recv.slots = new
                    recv.n = z3.If(g, recv.n + 1, recv.n)
                    return None
                if f.attr == 'reverse':
                    k = len(recv.slots)
                    old = list(recv.slots)
                    new = []
                    for i in range(k):
                        v = z3.IntVal(0)
                        for j in range(k):
                            v = z3.If(recv.n - 1 - i == j, old[j], v)
                        new.append(z3.If(g, v, old[i]))
                    recv.slots = new
                    return None
                if f.attr == 'join':
                    return self._expr(e.args[0], env, g)
                if f.attr == 'index':
                    return _z(self._expr(e.args[0], env, g))
            raise NotImplementedError(ast.dump(e)[:80])
        raise NotImplementedError(ast.dump(e)[:80])


def _z(x):
    if isinstance(x, z3.ExprRef):
        return x
    if isinstance(x, bool):
        return z3.BoolVal(x)
    return z3.IntVal(x)


def _b(x):
    if isinstance(x, z3.BoolRef):
        return x
    if isinstance(x, z3.ExprRef):
        return x != 0
    return z3.BoolVal(bool(x))
