"""Exact rationals with a fixed concrete denominator over (symbolic) integer
numerators - stands for python floats in token-bucket arithmetic so that the
solver stays in linear integer arithmetic.  ``Q(n, d)`` is n/d."""
import math

from crosshair.tracers import NoTracing


def _lcm(a, b):
    return a * b // math.gcd(a, b)


class Q:
    __slots__ = ('n', 'd')

    def __init__(self, n, d=1):
        self.n = n
        self.d = d           # concrete positive int

    @staticmethod
    def of(x):
        if isinstance(x, Q):
            return x
        with NoTracing():
            isf = type(x) is float
        if isf:
            import fractions
            fr = fractions.Fraction(x)
            return Q(fr.numerator, fr.denominator)
        return Q(x, 1)

    def _pair(self, o):
        o = Q.of(o)
        d = _lcm(self.d, o.d)
        return self.n * (d // self.d), o.n * (d // o.d), d

    def __add__(self, o):
        a, b, d = self._pair(o)
        return Q(a + b, d)

    __radd__ = __add__

    def __sub__(self, o):
        a, b, d = self._pair(o)
        return Q(a - b, d)

    def __rsub__(self, o):
        a, b, d = self._pair(o)
        return Q(b - a, d)

    def __mul__(self, o):
        if isinstance(o, Q):
            raise TypeError('Q*Q would be nonlinear')
        with NoTracing():
            isf = type(o) is float
        if isf:
            import fractions
            fr = fractions.Fraction(o)
            return Q(self.n * fr.numerator, self.d * fr.denominator)
        return Q(self.n * o, self.d)

    def __index__(self):
        if self.d != 1:
            raise TypeError('Q is not integral')
        return self.n.__index__()

    __rmul__ = __mul__

    def __truediv__(self, o):
        # (a/d) / (b/e) with b concrete: a*e / (d*b)
        o = Q.of(o)
        with NoTracing():
            ok = type(o.n) is int
        if not ok:
            raise TypeError('division by a symbolic quantity')
        if o.n <= 0:
            raise ZeroDivisionError('float division by zero')
        return Q(self.n * o.d, self.d * o.n)

    def __lt__(self, o):
        a, b, _d = self._pair(o)
        return a < b

    def __le__(self, o):
        a, b, _d = self._pair(o)
        return a <= b

    def __gt__(self, o):
        a, b, _d = self._pair(o)
        return a > b

    def __ge__(self, o):
        a, b, _d = self._pair(o)
        return a >= b

    def __eq__(self, o):
        a, b, _d = self._pair(o)
        return a == b

    def __ne__(self, o):
        a, b, _d = self._pair(o)
        return a != b

    __hash__ = None

    def __floor__(self):
        return self.n // self.d

    def __int__(self):
        # truncation toward zero
        q = self.n // self.d
        if self.n < 0 and q * self.d != self.n:
            return q + 1
        return q

    def __round__(self, ndigits=None):
        """round-half-even, as round(float)"""
        if ndigits is not None:
            raise TypeError('Q.__round__ with digits')
        two_n = 2 * self.n + self.d
        q = two_n // (2 * self.d)
        tie = (two_n % (2 * self.d)) == 0
        if tie and q % 2 != 0:
            return q - 1
        return q

    def __float__(self):
        return float(self.n) / self.d

    def __repr__(self):
        return 'Q(%r/%r)' % (self.n, self.d)
