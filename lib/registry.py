"""Single source for MANIFEST.json (bin/gen_manifest.py writes it)."""

TECH_SYMX = ('bounded symbolic execution of the real Python functions '
             '(CrossHair tracer as a library, z3 decides every branch; '
             'decision tree exhausted per sub-harness)')

CHECKS = {
    'C01': {
        'text': 'Bounded symbolic model checking of the real scheduler code: '
                'all capacities, demands, priorities, state-since times are '
                'solver variables (0..4095 per component, dimensions '
                'independent); shapes (3 instances, 2 servers, every initial '
                'placement, one cell event, one scheduling cycle) are '
                'enumerated; each decision tree is exhausted, so inside the '
                'bound the verdict covers every value. Histories longer than '
                'event+cycle are covered only in so far as the pre-state is '
                'rebuilt through Server.restore.',
        'note': 'numpy replaced by an exact integer/fraction model inside '
                'treadmill.scheduler (validated by replaying witnesses of '
                'completed paths on the real numpy); time.time() is a fixed '
                'instant; z3 + CrossHair tracer trusted.',
        'technique': TECH_SYMX + '; one-query invariant oracles',
        'design_ref': 'DESIGN.md section 5, C01',
    },
}

NOT_YET = {}
