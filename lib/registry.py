"""Single source for MANIFEST.json (bin/gen_manifest.py writes it)."""

TECH_SYMX = ('bounded symbolic execution of the real Python functions '
             '(CrossHair tracer as a library, z3 decides every branch; '
             'decision tree exhausted per sub-harness)')

CHECKS = {
    'C01': {
        'text': 'Bounded symbolic model checking of the real scheduler code: '
                'all capacities, demands, priorities, state-since times are '
                'solver variables (0..4095 per component, dimensions '
                'independent); shapes (3 instances, 2 servers, every initial '
                'placement, one cell event, one scheduling cycle) are '
                'enumerated; each decision tree is exhausted, so inside the '
                'bound the verdict covers every value. Histories longer than '
                'event+cycle are covered only in so far as the pre-state is '
                'rebuilt through Server.restore.',
        'note': 'numpy replaced by an exact integer/fraction model inside '
                'treadmill.scheduler (validated by replaying witnesses of '
                'completed paths on the real numpy); time.time() is a fixed '
                'instant; z3 + CrossHair tracer trusted.',
        'technique': TECH_SYMX + '; one-query invariant oracles',
        'design_ref': 'DESIGN.md section 5, C01',
    },
}

_G1_NOTE = ('numpy replaced inside treadmill.scheduler by an exact integer / '
            'fraction model (lib/symnp.py; IEEE-exact for quantities <= 4095, '
            'denominators 1 excluded; witnesses of completed paths are '
            'replayed on the real numpy), _any/_all replaced by one Or/And '
            'term, time.time() fixed; pre-states built through the real '
            'constructors and Server.restore; z3 and the CrossHair tracer '
            'trusted.')


def _g1(text, ref):
    return {'text': text, 'note': _G1_NOTE,
            'technique': TECH_SYMX + '; one-query invariant oracles',
            'design_ref': ref}


CHECKS.update({
    'C02': _g1('Two solver-decided parts on the real code: (a) inductive step '
               '- from an ARBITRARY state in which every rack/pod/cell '
               'aggregate is only known to be an upper bound of its up '
               'children (aggregates are fresh solver variables), each '
               'mutator (put, remove, six state transitions, add/remove node) '
               're-establishes the bound for capacity, traits, labels and '
               'valid-until, so histories of any length are covered if the '
               'invariant is inductive; (b) a probe added to a quiescent cell '
               'with havocked aggregates or cursors is placed whenever a '
               'leaf-only scan says some server fits. Bound: 3 servers / '
               'pod-rack-server for (a), 2 servers for (b) quick.',
               'DESIGN.md section 5, C02'),
    'C03': _g1('Every (instance, before, after) tuple of one scheduling cycle '
               'and the post-state are checked against partition label, '
               'traits, server state and lease (valid_until and expiries are '
               'solver variables) over all enumerated shapes: two partitions, '
               'moves between allocations, relabelled servers, trait masks, '
               'allocation traits, frozen servers, renewals. 3 instances, 2 '
               'servers, 1 dimension, one event + one cycle.',
               'DESIGN.md section 5, C03'),
    'C04': _g1('Affinity counts recomputed from the leaves after one and two '
               'cycles under capacity pressure (capacities/demands symbolic, '
               'so eviction and restore branches are all taken) for every '
               'initial placement that satisfies the limits; limits on '
               'server / rack / cell; counters compared with true counts.',
               'DESIGN.md section 5, C04'),
    'C05': _g1('Identity invariants (unique, in range, only on placed '
               'instances, available = range minus held, no stale group '
               'object) after one and two cycles following each group event '
               '(grow, shrink, zero, remove, remove+recreate), server '
               'failure, blacklisting, removal, under symbolic capacity '
               'pressure; group count <= 2, 3 instances.',
               'DESIGN.md section 5, C05'),
    'C06': _g1('Allocation trees (one, two siblings, parent with child) with '
               'symbolic ranks, rank adjustments, priorities and demands, '
               'reservations from {0,2,5}, caps from {none,1,1.5,2}: the real '
               'utilization_queue / schedule_alloc output is checked against '
               'a sandwich of the stated ordering rules (permutation, rank '
               'order, priority order inside an allocation, priority-0 last, '
               'boost iff within reservation, unranked iff beyond cap).',
               'DESIGN.md section 5, C06'),
    'C07': _g1('With the queue captured at Cell._find_placements, every '
               'instance that was on an up server and is displaced must have '
               'an instance strictly ahead of it that gained a placement; a '
               'second idle cycle must change nothing. Capacities, demands, '
               'priorities symbolic; 3 instances / 2 servers (4 in thorough), '
               'events: server down, priority change, server replaced, an '
               'unplaceable instance ahead.',
               'DESIGN.md section 5, C07'),
    'C08': _g1('Down-since time and each retention timeout are solver '
               'variables compared with the cycle instant: kept iff '
               'since+timeout > now; frozen servers keep instances and get no '
               'new ones; blacklisted instances end unplaced; the eviction '
               'branch never touches a non-up server; next wake-up not later '
               'than the earliest pending expiry. Includes frozen->down and '
               'down->frozen transitions.',
               'DESIGN.md section 5, C08'),
})

NOT_YET = {}
