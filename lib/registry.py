"""Single source for MANIFEST.json (bin/gen_manifest.py writes it)."""

TECH_SYMX = ('bounded symbolic execution of the real Python functions '
             '(CrossHair tracer as a library, z3 decides every branch; '
             'decision tree exhausted per sub-harness)')

CHECKS = {
    'C01': {
        'text': 'Bounded symbolic model checking of the real scheduler code: '
                'all capacities, demands, priorities, state-since times are '
                'solver variables (0..4095 per component, dimensions '
                'independent); shapes (3 instances, 2 servers, every initial '
                'placement, one cell event, one scheduling cycle) are '
                'enumerated; each decision tree is exhausted, so inside the '
                'bound the verdict covers every value. Histories longer than '
                'event+cycle are covered only in so far as the pre-state is '
                'rebuilt through Server.restore.',
        'note': 'numpy replaced by an exact integer/fraction model inside '
                'treadmill.scheduler (validated by replaying witnesses of '
                'completed paths on the real numpy); time.time() is a fixed '
                'instant; z3 + CrossHair tracer trusted.',
        'technique': TECH_SYMX + '; one-query invariant oracles',
        'design_ref': 'DESIGN.md section 5, C01',
    },
}

_G1_NOTE = ('numpy replaced inside treadmill.scheduler by an exact integer / '
            'fraction model (lib/symnp.py; IEEE-exact for quantities <= 4095, '
            'denominators 1 excluded; witnesses of completed paths are '
            'replayed on the real numpy), _any/_all replaced by one Or/And '
            'term, time.time() fixed; pre-states built through the real '
            'constructors and Server.restore; z3 and the CrossHair tracer '
            'trusted.')


def _g1(text, ref):
    return {'text': text, 'note': _G1_NOTE,
            'technique': TECH_SYMX + '; one-query invariant oracles',
            'design_ref': ref}


CHECKS.update({
    'C02': _g1('Two solver-decided parts on the real code: (a) inductive step '
               '- from an ARBITRARY state in which every rack/pod/cell '
               'aggregate is only known to be an upper bound of its up '
               'children (aggregates are fresh solver variables), each '
               'mutator (put, remove, six state transitions, add/remove node) '
               're-establishes the bound for capacity, traits, labels and '
               'valid-until, so histories of any length are covered if the '
               'invariant is inductive; (b) a probe added to a quiescent cell '
               'with havocked aggregates or cursors is placed whenever a '
               'leaf-only scan says some server fits. Bound: 3 servers / '
               'pod-rack-server for (a), 2 servers for (b) quick.',
               'DESIGN.md section 5, C02'),
    'C03': _g1('Every (instance, before, after) tuple of one scheduling cycle '
               'and the post-state are checked against partition label, '
               'traits, server state and lease (valid_until and expiries are '
               'solver variables) over all enumerated shapes: two partitions, '
               'moves between allocations, relabelled servers, trait masks, '
               'allocation traits, frozen servers, renewals. 3 instances, 2 '
               'servers, 1 dimension, one event + one cycle.',
               'DESIGN.md section 5, C03'),
    'C04': _g1('Affinity counts recomputed from the leaves after one and two '
               'cycles under capacity pressure (capacities/demands symbolic, '
               'so eviction and restore branches are all taken) for every '
               'initial placement that satisfies the limits; limits on '
               'server / rack / cell; counters compared with true counts.',
               'DESIGN.md section 5, C04'),
    'C05': _g1('Identity invariants (unique, in range, only on placed '
               'instances, available = range minus held, no stale group '
               'object) after one and two cycles following each group event '
               '(grow, shrink, zero, remove, remove+recreate), server '
               'failure, blacklisting, removal, under symbolic capacity '
               'pressure; group count <= 2, 3 instances.',
               'DESIGN.md section 5, C05'),
    'C06': _g1('Allocation trees (one, two siblings, parent with child) with '
               'symbolic ranks, rank adjustments, priorities and demands, '
               'reservations from {0,2,5}, caps from {none,1,1.5,2}: the real '
               'utilization_queue / schedule_alloc output is checked against '
               'a sandwich of the stated ordering rules (permutation, rank '
               'order, priority order inside an allocation, priority-0 last, '
               'boost iff within reservation, unranked iff beyond cap).',
               'DESIGN.md section 5, C06'),
    'C07': _g1('With the queue captured at Cell._find_placements, every '
               'instance that was on an up server and is displaced must have '
               'an instance strictly ahead of it that gained a placement; a '
               'second idle cycle must change nothing. Capacities, demands, '
               'priorities symbolic; 3 instances / 2 servers (4 in thorough), '
               'events: server down, priority change, server replaced, an '
               'unplaceable instance ahead.',
               'DESIGN.md section 5, C07'),
    'C08': _g1('Down-since time and each retention timeout are solver '
               'variables compared with the cycle instant: kept iff '
               'since+timeout > now; frozen servers keep instances and get no '
               'new ones; blacklisted instances end unplaced; the eviction '
               'branch never touches a non-up server; next wake-up not later '
               'than the earliest pending expiry. Includes frozen->down and '
               'down->frozen transitions.',
               'DESIGN.md section 5, C08'),
})

_G2_NOTE = ('storage is an in-memory implementation of scheduler.backend.'
            'Backend (lib/g2.py: dict of znodes with integer ctime ticks, '
            'write log, crash before write k); names and unit strings are '
            'concrete, capacities / demands / ctimes / since / crash index '
            'are solver variables; loader.resources passes integers through; '
            'the /placement reference blob is a plain write; numpy model and '
            'clock as in C01.')

CHECKS.update({
    'C09': {'text': 'The real Master (load_model, init_schedule, '
                    'process_* handlers, reschedule, check_placement_'
                    'integrity) runs on a symbolic stored state (each '
                    'instance recorded under no / one / two servers, recorded '
                    'identities, shrunk groups, down servers, stale entries) '
                    'followed by one ZooKeeper-level event and two cycles; '
                    'after every cycle the full dump of /placement is '
                    'compared with the model: existence, identity, expiry. '
                    'Bounded history (1 event quick, 2 + restart thorough).',
            'note': _G2_NOTE, 'technique': TECH_SYMX + '; bounded history '
            'from a symbolic stored state', 'design_ref': 'DESIGN.md 5, C09'},
    'C10': {'text': 'The crash index is a solver variable over the storage '
                    'writes of init_schedule / reschedule+integrity check: at '
                    'the cut no instance is recorded under two servers; a '
                    'fresh Master on the cut state must pass load_model, '
                    'init_schedule, check_placement_integrity and publish its '
                    'model again. Capacities from two concrete regimes in '
                    'quick (symbolic in thorough).',
            'note': _G2_NOTE, 'technique': TECH_SYMX + '; symbolic crash '
            'point', 'design_ref': 'DESIGN.md 5, C10'},
    'C11': {'text': 'State published by a first Master after start-up + one '
                    'event + cycle (capacities, demands symbolic) is reloaded '
                    'by a second Loader before any cycle: every record under a '
                    'healthy server is restored to that server with recorded '
                    'identity and expiry, nothing unrecorded is placed, '
                    'restored identities are not available, declared capacity '
                    'is respected.',
            'note': _G2_NOTE, 'technique': TECH_SYMX,
            'design_ref': 'DESIGN.md 5, C11'},
    'C19': {'text': 'api.allocation._check_capacity runs on fake admin '
                    'objects whose cpu / memory / disk (partition, trait '
                    'limits, <= 2 existing reservations, request) are solver '
                    'integers up to 2^40, trait membership and the request '
                    'name (new / equal / prefix / extension of existing ids) '
                    'are choices; the accept / reject decision is compared '
                    'with an independent sum written as a z3 term (both '
                    'directions); a second family uses real unit spellings.',
            'note': 'utils.cpu_units passes integers through (int(str(n)) == '
                    'n); schema decorators and the create / update closures '
                    'are not executed.',
            'technique': TECH_SYMX + '; differential oracle as a z3 term',
            'design_ref': 'DESIGN.md 5, C19'},
    'C20': {'text': 'sproc.appmonitor.reevaluate with now, last_update, the '
                    'token balance (exact rational /3600) and the suspension '
                    'deadline as solver variables, target 0..3, current 0..4, '
                    'all policies, every handled API outcome: creates <= '
                    'missing and <= refilled budget, balance never negative, '
                    'surplus deleted exactly per policy, never create and '
                    'delete together, suspended / absent monitors silent, '
                    'inductive range invariant re-established.',
            'note': 'floats of the token arithmetic are exact rationals '
                    '(lib/qnum.py); math.floor / int dispatch to the rational; '
                    'restclient.post, zkutils.update, alert function are '
                    'recorders; IEEE rounding is outside the claim.',
            'technique': TECH_SYMX + '; one inductive step',
            'design_ref': 'DESIGN.md 5, C20'},
})

NOT_YET = {}
