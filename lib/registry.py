"""Single source for MANIFEST.json (bin/gen_manifest.py writes it)."""

TECH_SYMX = ('bounded symbolic execution of the real Python functions '
             '(CrossHair tracer as a library, z3 decides every branch; '
             'decision tree exhausted per sub-harness)')

CHECKS = {
    'C01': {
        'text': 'Bounded symbolic model checking of the real scheduler code: '
                'all capacities, demands, priorities, state-since times are '
                'solver variables (0..4095 per component, dimensions '
                'independent); shapes (3 instances, 2 servers, every initial '
                'placement, one cell event, one scheduling cycle) are '
                'enumerated; each decision tree is exhausted, so inside the '
                'bound the verdict covers every value. Histories longer than '
                'event+cycle are covered only in so far as the pre-state is '
                'rebuilt through Server.restore.',
        'note': 'numpy replaced by an exact integer/fraction model inside '
                'treadmill.scheduler (validated by replaying witnesses of '
                'completed paths on the real numpy); time.time() is a fixed '
                'instant; z3 + CrossHair tracer trusted.',
        'technique': TECH_SYMX + '; one-query invariant oracles',
        'design_ref': 'DESIGN.md section 5, C01',
    },
}

_G1_NOTE = ('numpy replaced inside treadmill.scheduler by an exact integer / '
            'fraction model (lib/symnp.py; IEEE-exact for quantities <= 4095, '
            'denominators 1 excluded; witnesses of completed paths are '
            'replayed on the real numpy), _any/_all replaced by one Or/And '
            'term, time.time() fixed; pre-states built through the real '
            'constructors and Server.restore; z3 and the CrossHair tracer '
            'trusted.')


def _g1(text, ref):
    return {'text': text, 'note': _G1_NOTE,
            'technique': TECH_SYMX + '; one-query invariant oracles',
            'design_ref': ref}


CHECKS.update({
    'C02': _g1('Two solver-decided parts on the real code: (a) inductive step '
               '- from an ARBITRARY state in which every rack/pod/cell '
               'aggregate is only known to be an upper bound of its up '
               'children (aggregates are fresh solver variables), each '
               'mutator (put, remove, six state transitions, add/remove node) '
               're-establishes the bound for capacity, traits, labels and '
               'valid-until, so histories of any length are covered if the '
               'invariant is inductive; (b) a probe added to a quiescent cell '
               'with havocked aggregates or cursors is placed whenever a '
               'leaf-only scan says some server fits. Bound: 3 servers / '
               'pod-rack-server for (a), 2 servers for (b) quick.',
               'DESIGN.md section 5, C02'),
    'C03': _g1('Every (instance, before, after) tuple of one scheduling cycle '
               'and the post-state are checked against partition label, '
               'traits, server state and lease (valid_until and expiries are '
               'solver variables) over all enumerated shapes: two partitions, '
               'moves between allocations, relabelled servers, trait masks, '
               'allocation traits, frozen servers, renewals. 3 instances, 2 '
               'servers, 1 dimension, one event + one cycle.',
               'DESIGN.md section 5, C03'),
    'C04': _g1('Affinity counts recomputed from the leaves after one and two '
               'cycles under capacity pressure (capacities/demands symbolic, '
               'so eviction and restore branches are all taken) for every '
               'initial placement that satisfies the limits; limits on '
               'server / rack / cell; counters compared with true counts.',
               'DESIGN.md section 5, C04'),
    'C05': _g1('Identity invariants (unique, in range, only on placed '
               'instances, available = range minus held, no stale group '
               'object) after one and two cycles following each group event '
               '(grow, shrink, zero, remove, remove+recreate), server '
               'failure, blacklisting, removal, under symbolic capacity '
               'pressure; group count <= 2, 3 instances.',
               'DESIGN.md section 5, C05'),
    'C06': _g1('Allocation trees (one, two siblings, parent with child) with '
               'symbolic ranks, rank adjustments, priorities and demands, '
               'reservations from {0,2,5}, caps from {none,1,1.5,2}: the real '
               'utilization_queue / schedule_alloc output is checked against '
               'a sandwich of the stated ordering rules (permutation, rank '
               'order, priority order inside an allocation, priority-0 last, '
               'boost iff within reservation, unranked iff beyond cap).',
               'DESIGN.md section 5, C06'),
    'C07': _g1('With the queue captured at Cell._find_placements, every '
               'instance that was on an up server and is displaced must have '
               'an instance strictly ahead of it that gained a placement; a '
               'second idle cycle must change nothing. Capacities, demands, '
               'priorities symbolic; 3 instances / 2 servers (4 in thorough), '
               'events: server down, priority change, server replaced, an '
               'unplaceable instance ahead.',
               'DESIGN.md section 5, C07'),
    'C08': _g1('Down-since time and each retention timeout are solver '
               'variables compared with the cycle instant: kept iff '
               'since+timeout > now; frozen servers keep instances and get no '
               'new ones; blacklisted instances end unplaced; the eviction '
               'branch never touches a non-up server; next wake-up not later '
               'than the earliest pending expiry. Includes frozen->down and '
               'down->frozen transitions.',
               'DESIGN.md section 5, C08'),
})

_G2_NOTE = ('storage is an in-memory implementation of scheduler.backend.'
            'Backend (lib/g2.py: dict of znodes with integer ctime ticks, '
            'write log, crash before write k); names and unit strings are '
            'concrete, capacities / demands / ctimes / since / crash index '
            'are solver variables; loader.resources passes integers through; '
            'the /placement reference blob is a plain write; numpy model and '
            'clock as in C01.')

CHECKS.update({
    'C09': {'text': 'The real Master (load_model, init_schedule, '
                    'process_* handlers, reschedule, check_placement_'
                    'integrity) runs on a symbolic stored state (each '
                    'instance recorded under no / one / two servers, recorded '
                    'identities, shrunk groups, down servers, stale entries) '
                    'followed by one ZooKeeper-level event and two cycles; '
                    'after every cycle the full dump of /placement is '
                    'compared with the model: existence, identity, expiry. '
                    'Bounded history (1 event quick, 2 + restart thorough).',
            'note': _G2_NOTE, 'technique': TECH_SYMX + '; bounded history '
            'from a symbolic stored state', 'design_ref': 'DESIGN.md 5, C09'},
    'C10': {'text': 'The crash index is a solver variable over the storage '
                    'writes of init_schedule / reschedule+integrity check: at '
                    'the cut no instance is recorded under two servers; a '
                    'fresh Master on the cut state must pass load_model, '
                    'init_schedule, check_placement_integrity and publish its '
                    'model again. Capacities from two concrete regimes in '
                    'quick (symbolic in thorough).',
            'note': _G2_NOTE, 'technique': TECH_SYMX + '; symbolic crash '
            'point', 'design_ref': 'DESIGN.md 5, C10'},
    'C11': {'text': 'State published by a first Master after start-up + one '
                    'event + cycle (capacities, demands symbolic) is reloaded '
                    'by a second Loader before any cycle: every record under a '
                    'healthy server is restored to that server with recorded '
                    'identity and expiry, nothing unrecorded is placed, '
                    'restored identities are not available, declared capacity '
                    'is respected.',
            'note': _G2_NOTE, 'technique': TECH_SYMX,
            'design_ref': 'DESIGN.md 5, C11'},
    'C19': {'text': 'api.allocation._check_capacity runs on fake admin '
                    'objects whose cpu / memory / disk (partition, trait '
                    'limits, <= 2 existing reservations, request) are solver '
                    'integers up to 2^40, trait membership and the request '
                    'name (new / equal / prefix / extension of existing ids) '
                    'are choices; the accept / reject decision is compared '
                    'with an independent sum written as a z3 term (both '
                    'directions); a second family uses real unit spellings.',
            'note': 'utils.cpu_units passes integers through (int(str(n)) == '
                    'n); schema decorators and the create / update closures '
                    'are not executed.',
            'technique': TECH_SYMX + '; differential oracle as a z3 term',
            'design_ref': 'DESIGN.md 5, C19'},
    'C20': {'text': 'sproc.appmonitor.reevaluate with now, last_update, the '
                    'token balance (exact rational /3600) and the suspension '
                    'deadline as solver variables, target 0..3, current 0..4, '
                    'all policies, every handled API outcome: creates <= '
                    'missing and <= refilled budget, balance never negative, '
                    'surplus deleted exactly per policy, never create and '
                    'delete together, suspended / absent monitors silent, '
                    'inductive range invariant re-established.',
            'note': 'floats of the token arithmetic are exact rationals '
                    '(lib/qnum.py); math.floor / int dispatch to the rational; '
                    'restclient.post, zkutils.update, alert function are '
                    'recorders; IEEE rounding is outside the claim.',
            'technique': TECH_SYMX + '; one inductive step',
            'design_ref': 'DESIGN.md 5, C20'},
})

_FS_NOTE = ('node-side modules run on a real scratch directory (real kernel '
            'semantics for symlink / rename / unlink, listing order sorted by '
            'the harness); module-level collaborators that leave the process '
            '(supervisor, iptables, newnet, DNS, REST) are recorders.')

CHECKS.update({
    'C12': {'text': 'EventMgr._synchronize / _cache run against an in-memory '
                    'ZooKeeper fake and a real cache directory from a '
                    'symbolic pre-state (per instance: expected / placement '
                    'znode / manifest znode / cache file present; placement '
                    'ctime and cache st_ctime solver variables; '
                    'check_existing), with a fault (OSError or process stop) '
                    'before call k of fs.write_safe, k a solver variable, and '
                    'a reader placed at the instant of the rename.',
            'note': _FS_NOTE + ' os.stat of cache files reports a symbolic '
                    'st_ctime; YAML serialisation runs for real on concrete '
                    'manifests.',
            'technique': TECH_SYMX + '; symbolic fault index',
            'design_ref': 'DESIGN.md 5, C12'},
    'C13': {'text': 'One inductive step of the AppCfgMgr link state machine '
                    'from a symbolic link table (cache generation, two '
                    'container generations with finish markers, running link, '
                    'cleanup links under both naming conventions) under a '
                    'reachability invariant: created / deleted / re-created '
                    'cache entry, ready flips, restart + first sync, '
                    'container finishing on its own, cleanup completing. '
                    'Four genuine defects of _synchronize with two '
                    'generations of one instance are listed known findings.',
            'note': _FS_NOTE + ' app_cfg.configure is a stub that creates the '
                    'container directory under the real unique name; '
                    'appcfg.os.stat reports a controlled ctime / inode per '
                    'cache generation.',
            'technique': TECH_SYMX + '; one inductive step from a symbolic '
                         'link table', 'design_ref': 'DESIGN.md 5, C13'},
    'C14': {'text': 'One inductive step from a symbolic link table (every IP '
                    'of the network / rule / spec: free, owned by o1, o2 or a '
                    'dead owner) for VipMgr.alloc / free / garbage_collect, '
                    'RuleMgr.create_rule / unlink_rule / garbage_collect, '
                    'EndpointsMgr.create_spec / unlink_spec / unlink_all / '
                    'garbage_collect with symbolically chosen caller and '
                    'argument; the resulting directory is compared with the '
                    'expected table.',
            'note': _FS_NOTE, 'technique': TECH_SYMX + '; one inductive step',
            'design_ref': 'DESIGN.md 5, C14'},
    'C15': {'text': 'Round trip / injectivity of the encodings on the real '
                    'functions: every app and server trace event class '
                    '(fields over alphabets containing the separators), '
                    'container unique names (proid / app words with . - _, '
                    'ids, padding), pairs of distinct instances; rule-file '
                    'names by regular-language lemmas generated from the '
                    'compiled regexes and templates of the module (SMTQ), '
                    'base-62 ids by an AST-to-z3 translation of to_base_n / '
                    'from_base_n; LDAP entries by SYMX. See DESIGN.md for '
                    'which parts are in the quick tier.',
            'note': 'strings are words over small alphabets chosen by the '
                    'solver (a symbolic int or str inside str.format is '
                    'realised value by value); the ZooKeeper payload codec '
                    '(json / yaml C code) is not claimed.',
            'technique': TECH_SYMX + ' + SMT lemmas generated from the module '
                         'source (z3 regex / Int)',
            'design_ref': 'DESIGN.md 5, C15'},
    'C16': {'text': '_run._unshare_network and _finish._cleanup_network with '
                    'the real RuleMgr / EndpointsMgr on a scratch tree and a '
                    'set-based IP-set recorder: container A has a symbolic '
                    'manifest shape (0-2 endpoints tcp/udp, infra or not, '
                    'port equal to real_port or not, 0-2/0-1 ephemeral ports, '
                    '0-3 passthrough hosts incl. two names for one IP, vring), '
                    'container B is fixed and overlaps A (same or other '
                    'instance); four start/finish interleavings incl. a '
                    'repeated finish: final host state equals the initial one '
                    'and no finish removes an entry of the other container.',
            'note': _FS_NOTE + ' DNS is a fixed map; the firewall plugin is '
                    'absent; ports come from a pool (integers inside compared '
                    'names cannot stay symbolic).',
            'technique': TECH_SYMX, 'design_ref': 'DESIGN.md 5, C16'},
    'C17': {'text': 'Two PresenceResourceService instances (two sessions, two '
                    'hosts) on one in-memory ZooKeeper: every request '
                    'sequence of length <= 3 over create / delete of two '
                    'containers of one instance on either node (enumerated '
                    'across processes) with an adversary that may expire the '
                    'other session before any ZooKeeper call (solver '
                    'booleans): no set / delete on a node owned by another '
                    'session, created nodes are own ephemerals, nodes of the '
                    'newer container survive the clean-up of the older one; '
                    'EndpointPresence.unregister_* and trace _unschedule on '
                    'symbolic node states.',
            'note': 'memzk (lib/memzk.py) stands for kazoo: ephemeral owners, '
                    'ticks, sequence nodes, watches recorded; kazoo threading '
                    'is outside the claim.',
            'technique': TECH_SYMX + '; adversarial schedule as solver '
                         'booleans', 'design_ref': 'DESIGN.md 5, C17'},
    'C18': {'text': 'cleanup_trace / cleanup_finished / history pruning on '
                    'memzk with real sqlite + zlib on concrete rows: now, '
                    'finished mtimes and the crash index over ZooKeeper '
                    'writes are solver variables, batch size, max_count and '
                    'scheduled membership are choices; every pre-existing '
                    'event is live or returned by download_batch from a '
                    'snapshot, nothing scheduled or younger than the expiry '
                    'is archived, pruning keeps exactly the newest snapshots.',
            'note': 'memzk as in C17; time.time() in trace.app.zk returns an '
                    'integer-seconds wrapper so that comparisons with the '
                    '(integral) event timestamps stay in integers.',
            'technique': TECH_SYMX + '; symbolic crash index',
            'design_ref': 'DESIGN.md 5, C18'},
})

NOT_YET = {}

# Coverage added after the third to fifth rounds of seeded changes (DESIGN.md
# section 5, "Added after ..."); appended to the claim text of each property.
ADDED = {
    'C01': 'Also: start-up on a stored state listing one instance under two '
           'servers (real restore_placements) and a rewritten manifest size '
           're-evaluated by an apps event, on the real Master / Loader.',
    'C02': 'Also: two pending instances of the probe\'s shape with independent '
           'demands ahead of it; probes that need an identity (after a holder '
           'lost its server to the loader and was deleted).',
    'C03': 'Also: master level - an allocations event adds / removes a trait or '
           'moves the allocation while instances are queued or placed '
           '(required traits and partition read from the stored '
           'configuration, never from the model).',
    'C04': 'Also: the master\'s cell event (real Loader.load_cell), servers '
           'leaving / replaced under placed instances, instances of one '
           'affinity that declare different limit values; limits taken from '
           'the spec.',
    'C05': 'Also: server removal combined with instance removal or a group '
           'shrink in one batch of events.',
    'C06': 'Also: re-assignments between allocations before the cycle, tenant '
           'shape with two ranked sub-allocations.',
    'C07': 'Also: leased instances with re-assigned reboot dates, frozen / '
           'down racks above healthy servers, stale unschedule requests.',
    'C08': 'Also: several cycles with events in between (unschedule requests '
           'tracked by the harness); master level - a server that fails, '
           'returns (plain / re-registered / during fail-over) and fails '
           'again, retention clock kept by the harness.',
    'C09': 'Also: an apps event racing with the unscheduling of the instance '
           'it names (both orders).',
    'C11': 'Also: traits registered by servers on the fly, partitions and '
           'allocation traits, a server put on the blackout list between the '
           'two masters.',
    'C12': 'Also: a cache file that vanishes between the listing and the '
           'unlink of the synchronisation (concurrent actor).',
    'C13': 'Also: delete + create events of a re-placed instance delivered '
           'after the new file exists; no known findings are masked any more '
           '(the four defects of _synchronize were repaired in /repo).',
    'C14': 'Also: the treadmill root behind a deeper symbolic link; garbage '
           'collection right after / concurrently with a live owner\'s create '
           '(interleaving point symbolic).',
    'C15': 'Also: ZooKeeper payloads (dictionaries and lists through zkutils '
           'put / create / update / ensure_exists and get*) over a bounded '
           'grammar of shapes and special leaves - bounded exhaustive, the '
           'codec itself is C code the engine can only realise; LDAP argument '
           'vectors with repeated tokens.',
    'C16': 'Also: finish retried after the released address went to another '
           'container; a transient failure of one IP-set removal (index '
           'symbolic) followed by a second finish.',
    'C17': 'Also: registrations removed behind the service\'s back, a '
           'lingering older session of the same host (identical payloads).',
    'C18': 'Also: instances both scheduled and finished; two archiver passes '
           'with a record rewritten in between (modules re-executed per '
           'path).',
    'C19': 'Also: the public entry points API().reservation.create / update '
           'with real jsonschema validation on fake admin objects (magnitudes '
           'are solver choices rendered as schema-valid strings, incl. K '
           'sizes that are not whole megabytes).',
    'C20': 'Also: the real _run_sync with its ZooKeeper watch callbacks - a '
           'monitor re-configured while the process runs (token bucket of the '
           'new target over three evaluations at symbolic instants), '
           'scale-down through the real masterapi.update_appmonitor.',
}
for _k, _v in ADDED.items():
    if _k in CHECKS:
        CHECKS[_k] = dict(CHECKS[_k], text=CHECKS[_k]['text'] + ' ' + _v)


# ---------------------------------------------------------------------------
# What the evidence files say about bounds, stubs and assumptions (merged into
# each check's META by lib/runner.py when the module does not say it itself).
_G1_STUBS = [
    'numpy inside treadmill.scheduler -> lib/symnp.py (exact integers / '
    'fractions, If-merged max / maximum / minimum)',
    'scheduler._any / _all -> one Or / And term',
    'time.time in treadmill.scheduler -> fixed instant (harness clock)',
]
_G1_ASSUME = [
    'every capacity / demand component in 0..4095 (the integer / fraction '
    'model of numpy is IEEE-exact there)',
    'utilisation denominators of exactly 1 excluded (x + eps absorption)',
    'priorities in index order (strict), ties only where the check says so',
    'pre-states built through Server.restore; paths where a restore is refused '
    'are ignored',
]
_G1_OUT = ['more than 3-4 instances / 2-3 servers / 3 dimensions',
           'histories longer than the listed events + two cycles',
           'IEEE-754 effects for quantities above 4095']
_G2_STUBS = [
    'ZooKeeper backend -> lib/g2.py MemBackend (znodes with integer ctime '
    'ticks, write log, crash before write k)',
    'Master._save_placement -> one logged write (json + zlib blob not built)',
    'loader.resources: integers pass through, strings go to the real parsers',
    'time.time in loader / master -> harness clock',
] + _G1_STUBS
_ZK_STUBS = ['kazoo client -> lib/memzk.py (ephemeral owners, ticks, sequence '
             'nodes, NoNode / NodeExists, adversary hook before every call)']

EVIDENCE_COMMON = {
    'assumes': ['z3 and the CrossHair tracer are trusted; every completed '
                'path is replayed on the unstubbed code'],
}

EVIDENCE_META = {
    'C01': {'bounds': {'instances': 3, 'servers': 2, 'dimensions': 2,
                       'events_before_cycle': 1, 'cycles': '1-2',
                       'values': '0..4095 (loader level 0..2^21)',
                       'unit_spellings': 'digit strings <= 3 digits'},
            'stubs': _G2_STUBS, 'assumes': _G1_ASSUME, 'outside_bounds': _G1_OUT},
    'C02': {'bounds': {'step': 'pod-rack-server, 3 servers, D = 2, one '
                               'mutator from an arbitrary aggregate state',
                       'probe': '2 servers, <= 3 residents, D <= 2'},
            'stubs': _G1_STUBS, 'assumes': _G1_ASSUME + [
                'probe worlds: the first cycle changes nothing (quiescent)'],
            'outside_bounds': _G1_OUT},
    'C03': {'bounds': {'instances': 3, 'servers': 2, 'partitions': 2,
                       'trait_bits': 3, 'lease': '3600 s, expiry and '
                       'valid_until symbolic', 'master_level': '2 servers, 2 '
                       'instances, 2 events'},
            'stubs': _G2_STUBS, 'assumes': _G1_ASSUME, 'outside_bounds': _G1_OUT},
    'C04': {'bounds': {'instances': 3, 'servers': '2-3', 'levels': 'server / '
                       'rack / pod / cell', 'limits': '1-3', 'cycles': 2},
            'stubs': _G1_STUBS, 'assumes': _G1_ASSUME + [
                'pre-state satisfies the declared limits'],
            'outside_bounds': _G1_OUT},
    'C05': {'bounds': {'instances': 3, 'servers': 2, 'group_count': '1-2',
                       'events_before_cycle': '1-2', 'cycles': 2},
            'stubs': _G1_STUBS, 'assumes': _G1_ASSUME, 'outside_bounds': _G1_OUT},
    'C06': {'bounds': {'instances': 3, 'allocations': '1-3 (nested <= 2 '
                       'levels)', 'rank / adjustment / priority / demand':
                       'symbolic', 'reservation': '{0,2,5}', 'cap': '{none, 1, '
                       '1.5, 2}'},
            'stubs': _G1_STUBS, 'assumes': [a for a in _G1_ASSUME
                                            if 'priorities' not in a] + [
                'servers large enough for everything ranked'],
            'outside_bounds': _G1_OUT},
    'C07': {'bounds': {'instances': '3-4', 'servers': 2, 'cycles': 2},
            'stubs': _G1_STUBS, 'assumes': _G1_ASSUME, 'outside_bounds': _G1_OUT},
    'C08': {'bounds': {'instances': 3, 'servers': 2, 'cycles': '1-4',
                       'master_level': '9 cycles, retention 7200 s, concrete '
                       'capacities'},
            'stubs': _G2_STUBS, 'assumes': _G1_ASSUME, 'outside_bounds': _G1_OUT},
    'C09': {'bounds': {'servers': 2, 'instances': '2-3', 'stored_states': 24,
                       'events': '1-3', 'cycles': 'start-up + event + idle'},
            'stubs': _G2_STUBS, 'assumes': ['memory is the only symbolic '
                                            'dimension (cpu / disk ample)'],
            'outside_bounds': ['3+ servers', 'kazoo session events']},
    'C10': {'bounds': {'servers': 2, 'instances': '2-3', 'crash_index':
                       'symbolic over all writes of start-up or of event + '
                       'cycle + integrity check'},
            'stubs': _G2_STUBS, 'assumes': ['a crash loses no write that was '
                                            'acknowledged (ZooKeeper is '
                                            'linearisable)'],
            'outside_bounds': ['two crashes in a row', '3+ servers']},
    'C11': {'bounds': {'servers': 2, 'instances': '2-3', 'between_masters':
                       '6 kinds of change'},
            'stubs': _G2_STUBS, 'assumes': [], 'outside_bounds': ['3+ servers']},
    'C12': {'bounds': {'instances': 2, 'extra_cache_files': 1, 'fault_index':
                       'symbolic over the calls of fs.write_safe'},
            'stubs': _ZK_STUBS + ['real scratch directory; os.stat ctime of '
                                  'cache files controlled; faults injected '
                                  'into tempfile / os calls of treadmill.fs'],
            'assumes': [], 'outside_bounds': ['more than 2 instances']},
    'C13': {'bounds': {'instances': 1, 'generations': 2, 'steps': 1},
            'stubs': ['real scratch directory', 'app_cfg.configure -> creates '
                      'apps/<real unique name> or fails (choice)',
                      'supervisor.control_svscan, report_aborted -> no-op',
                      'os.stat of the cache entry reports the generation\'s '
                      'ctime / inode'],
            'assumes': ['pre-state link table inside the reachability '
                        'invariant stated in checks/c13.py'],
            'outside_bounds': ['two instances interacting', '3+ generations']},
    'C14': {'bounds': {'network': '/30 (thorough /29)', 'rules': 3, 'specs': 3,
                       'owners': '2 live + 1 dead', 'operations': '1-3'},
            'stubs': ['real scratch directory', 'netdev / iptables recorders '
                      'for the network service'],
            'assumes': [], 'outside_bounds': ['larger networks']},
    'C15': {'bounds': {'rule_files': 'all field values (SMT lemmas)',
                       'base62': 'structure for all n < 2^77, round trip for '
                       'n < 62^4', 'trace_event_fields': 'words <= 2 chars '
                       'over alphabets with the separators', 'ldap': 'optional '
                       'fields one group at a time', 'zk_payload': 'bounded '
                       'grammar (depth <= 2)'},
            'stubs': _ZK_STUBS, 'assumes': [], 'outside_bounds': [
                'string payloads in ZooKeeper', 'longer words']},
    'C16': {'bounds': {'endpoints': '0-2', 'passthrough_hosts': '0-3',
                       'ephemeral_ports': '0-3', 'containers': 2,
                       'interleavings': 6},
            'stubs': ['real scratch directory (rules, endpoints)',
                      'iptables ip-set calls -> in-memory sets',
                      'socket.gethostbyname -> fixed map', 'newnet.'
                      'create_newnet -> no-op', 'firewall plugin absent'],
            'assumes': [], 'outside_bounds': ['3+ containers']},
    'C17': {'bounds': {'requests': '<= 4', 'sessions': 3, 'expiries': '<= 2'},
            'stubs': _ZK_STUBS + ['retry_request -> recorder'],
            'assumes': [], 'outside_bounds': ['kazoo threading', 'longer '
                                              'sequences']},
    'C18': {'bounds': {'events': 6, 'instances': 3, 'batch': '1-4',
                       'passes': '1-2'},
            'stubs': _ZK_STUBS + ['time.time -> integer-seconds wrapper; real '
                                  'sqlite + zlib'],
            'assumes': [], 'outside_bounds': ['more events']},
    'C19': {'bounds': {'existing_reservations': '<= 2', 'trait_limits': '<= 2',
                       'values': '0..2^40', 'api_level': 'magnitudes from '
                       'small sets, two spellings'},
            'stubs': ['context.GLOBAL.admin -> fake objects',
                      'decorator.getargspec -> inspect.getfullargspec '
                      '(environment)', 'utils.cpu_units: integers pass '
                      'through'],
            'assumes': [], 'outside_bounds': ['3+ reservations']},
    'C20': {'bounds': {'monitors': '1-2', 'target': '<= 5', 'instances':
                       '<= 6', 'evaluations': '1-4'},
            'stubs': ['restclient.post -> outcome chosen symbolically',
                      'token balance as exact rational (lib/qnum.py)',
                      'ZooKeeper watches -> captured callbacks / memzk',
                      'utils.exit_on_unhandled -> identity'],
            'assumes': [], 'outside_bounds': ['more monitors']},
}
