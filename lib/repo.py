"""Where the code under test lives (always the current working tree)."""
import os
import sys

REPO = os.environ.get('VERIF_REPO', '/repo')
PYLIB = REPO + '/lib/python'
if PYLIB not in sys.path:
    sys.path.insert(0, PYLIB)
