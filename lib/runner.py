"""Runs one property check: sub-harnesses across processes, replay of witnesses,
known findings, evidence, exit codes (0 ok / 1 VIOLATION / 3 harness error)."""

import argparse
import hashlib
import importlib
import json
import multiprocessing
import os
import subprocess
import sys
import time
import traceback

HERE = os.path.dirname(os.path.abspath(__file__))
VERIF = os.path.dirname(HERE)
sys.path.insert(0, HERE)
sys.path.insert(0, os.path.join(VERIF, 'checks'))

REPO = os.environ.get('VERIF_REPO', '/repo')
NPROC = int(os.environ.get('VERIF_NPROC', '16'))


def load_known():
    p = os.path.join(VERIF, 'known_findings.json')
    if not os.path.exists(p):
        return {'findings': [], 'fixed': []}
    return json.load(open(p))


def get_subs(mod, tier):
    """Sub-harnesses of a tier.  The thorough tier is the quick tier plus a
    deterministic 1-in-k sample of the module's deeper worlds, capped by
    THOROUGH_EXTRA (so that it stays within tens of minutes on 16 cores)."""
    subs = mod.subharnesses(tier)
    cap = getattr(mod, 'THOROUGH_EXTRA', None)
    if tier != 'thorough' or cap is None:
        return subs
    quick = mod.subharnesses('quick')
    qnames = set(n for n, _p in quick)
    extra = [s for s in subs if s[0] not in qnames]
    if len(extra) > cap:
        step = -(-len(extra) // cap)
        extra = extra[::step]
    return quick + extra


def _cleanup_scratch():
    """Pool workers leave through os._exit (no atexit handlers): remove the
    worker's scratch directory explicitly."""
    try:
        import shutil
        import fsx
        if fsx._BASE[0]:
            shutil.rmtree(fsx._BASE[0], True)
            fsx._BASE[0] = None
    except Exception:       # noqa
        pass


def _job(args):
    try:
        return _job_inner(args)
    finally:
        _cleanup_scratch()


def _job_inner(args):
    modname, idx, tier, twin = args
    t0 = time.monotonic()
    try:
        import symx
        mod = importlib.import_module(modname)
        subs = get_subs(mod, tier)
        name, params = subs[idx]
        kind = params.get('engine', 'symx') if isinstance(params, dict) else 'symx'
        if kind == 'custom':
            # SMTQ or other solver-side sub-check implemented by the module
            res = mod.run_custom(name, params, tier)
            res.setdefault('wall_s', round(time.monotonic() - t0, 2))
            res['name'] = name
            return res
        known = getattr(mod, 'KNOWN', [])
        budget = mod.budget(tier, name) if hasattr(mod, 'budget') else \
            (240.0 if tier == 'quick' else 1500.0)
        if twin:
            def fn(S):
                mod.harness(S, params)
                S.fail('__twin__')
            res = symx.explore(fn, budget_s=min(budget, 120.0),
                               known=known, keep_samples=0)
            res['name'] = name + '#twin'
            res['twin'] = True
            return res

        def fn(S):
            mod.harness(S, params)
        # the witness of EVERY completed path is kept and re-run on the
        # unstubbed code (real numpy, real dict / lru_cache / interpreter): a
        # differential check of the engine's model against the interpreter,
        # path by path (measured: 3-7 ms per replay, < 5 % of the exploration)
        replay_all = os.environ.get('VERIF_REPLAY_ALL', '1') != '0'
        res = symx.explore(fn, budget_s=budget, known=known,
                           per_path_timeout=getattr(mod, 'PER_PATH', 60.0),
                           keep_samples=10 ** 9 if replay_all else 3)
        res['name'] = name
        res['params'] = params
        # validate completed-path witnesses on the unstubbed code
        val_ok = val_bad = 0
        bad = []
        t_val = time.monotonic()
        for w in res['samples']:
            try:
                out = symx.replay(fn, w, known)
            except Exception:
                out = ('error', traceback.format_exc())
            if out[0] in ('ok', 'known'):
                val_ok += 1
            else:
                val_bad += 1
                if len(bad) < 3:
                    bad.append({'witness': w, 'outcome': list(out)})
        res['validated'] = val_ok
        res['validation_mismatch'] = bad
        res['validation_s'] = round(time.monotonic() - t_val, 2)
        res['samples'] = res['samples'][:3]
        return res
    except BaseException as e:  # noqa
        return {'name': '%s[%d]' % (modname, idx), 'error':
                'worker failure: %r\n%s' % (e, traceback.format_exc()),
                'completed': 0, 'ignored': 0, 'unknown': 0, 'timeouts': 0,
                'exhausted': False, 'violation': None, 'known': {},
                'reached': {}, 'samples': [], 'decisions': 0,
                'wall_s': round(time.monotonic() - t0, 2)}


def _replay_file(path):
    """Fresh-process concrete replay.  Prints outcome JSON."""
    import symx
    rec = json.load(open(path))
    mod = importlib.import_module(rec['module'])
    params = rec['params']
    known = getattr(mod, 'KNOWN', []) if rec.get('use_known', True) else []

    def fn(S):
        mod.harness(S, params)
    try:
        out = symx.replay(fn, rec['witness'], known)
    except Exception:
        out = ('error', traceback.format_exc())
    print('REPLAY-OUTCOME ' + json.dumps(list(out)))
    return out


def replay_subprocess(path):
    p = subprocess.run([sys.executable, os.path.abspath(__file__),
                        '--replay', path], capture_output=True, text=True,
                       timeout=600, env=dict(os.environ, PYTHONHASHSEED='0'))
    for line in p.stdout.splitlines():
        if line.startswith('REPLAY-OUTCOME '):
            return json.loads(line[len('REPLAY-OUTCOME '):]), p
    return ['error', p.stdout[-2000:] + p.stderr[-2000:]], p


def write_replay(prop, modname, sub, params, label, witness, extra=None):
    os.makedirs(os.path.join(VERIF, 'replays'), exist_ok=True)
    rec = {'property': prop, 'module': modname, 'sub': sub, 'params': params,
           'label': label, 'witness': witness}
    if extra:
        rec.update(extra)
    h = hashlib.sha1(json.dumps(rec, sort_keys=True).encode()).hexdigest()[:10]
    path = os.path.join(VERIF, 'replays', '%s-%s.json' % (prop, h))
    json.dump(rec, open(path, 'w'), indent=1, sort_keys=True)
    return path


def main(argv=None):
    ap = argparse.ArgumentParser()
    ap.add_argument('prop', nargs='?')
    ap.add_argument('--tier', default=os.environ.get('VERIF_TIER', 'quick'))
    ap.add_argument('--replay')
    ap.add_argument('--only', help='substring filter on sub-harness names')
    ap.add_argument('--no-evidence', action='store_true')
    a = ap.parse_args(argv)

    if a.replay and not a.prop:
        out = _replay_file(a.replay)
        return 1 if out[0] == 'violation' else 0
    prop = a.prop.upper()
    modname = prop.lower()
    if a.replay:
        out, p = replay_subprocess(a.replay)
        print('replay outcome:', out)
        if out[0] == 'violation':
            print('VIOLATION property=%s replay=%s' % (prop, a.replay))
            return 1
        return 0 if out[0] in ('ok', 'known', 'ignored') else 3

    tier = a.tier if a.tier in ('quick', 'thorough') else 'quick'
    seed = int(os.environ.get('VERIF_SEED', '0') or 0)
    t0 = time.monotonic()
    mod = importlib.import_module(modname)
    subs = get_subs(mod, tier)
    idxs = [i for i, (n, _p) in enumerate(subs)
            if not a.only or a.only in n]
    # order longest-first if the module gives weights; seed rotates order
    jobs = [(modname, i, tier, False) for i in idxs]
    if seed:
        k = seed % max(1, len(jobs))
        jobs = jobs[k:] + jobs[:k]
    if hasattr(mod, 'weight'):
        # long sub-harnesses first (better packing on 16 cores); stable
        jobs.sort(key=lambda j: -mod.weight(subs[j[1]][0], subs[j[1]][1]))
    twins = getattr(mod, 'TWINS', None)
    if twins is None:
        twins = [i for i in idxs[:1]
                 if not (isinstance(subs[i][1], dict) and
                         subs[i][1].get('engine') == 'custom')]
    else:
        twins = [i for i, (n, _p) in enumerate(subs) if n in twins]
    jobs += [(modname, i, tier, True) for i in twins]

    ctx = multiprocessing.get_context('fork')
    results = []
    with ctx.Pool(min(NPROC, max(1, len(jobs))), maxtasksperchild=1) as pool:
        for r in pool.imap_unordered(_job, jobs, chunksize=1):
            results.append(r)
            if os.environ.get('VERIF_STOP_AT_FIRST') and r.get('violation') \
                    and not r.get('twin'):
                # seed runs: one replayed counterexample is enough
                pool.terminate()
                break
            if os.environ.get('VERIF_VERBOSE'):
                print('  sub %-40s paths=%s ign=%s exh=%s viol=%s known=%s '
                      'err=%s %.1fs' % (
                          r.get('name'), r.get('completed'), r.get('ignored'),
                          r.get('exhausted'),
                          (r.get('violation') or {}).get('label'),
                          list((r.get('known') or {}).keys()),
                          bool(r.get('error')), r.get('wall_s', 0)),
                      flush=True)

    return finish(prop, modname, mod, tier, seed, subs, results, t0,
                  write=not a.no_evidence and not a.only)


def finish(prop, modname, mod, tier, seed, subs, results, t0, write=True):
    known_file = load_known()
    listed = {f['id']: f for f in known_file.get('findings', [])
              if f['property'] == prop}
    meta = dict(getattr(mod, 'META', {}))
    try:
        import registry
        for k_, v_ in registry.EVIDENCE_META.get(prop, {}).items():
            meta.setdefault(k_, v_)
        meta.setdefault('explanation',
                        registry.CHECKS.get(prop, {}).get('text', ''))
        for k_, v_ in registry.EVIDENCE_COMMON.items():
            meta[k_] = list(meta.get(k_, [])) + list(v_)
    except Exception:       # noqa
        pass
    errors, violations, known_hits = [], [], {}
    tot = dict(completed=0, ignored=0, unknown=0, timeouts=0, decisions=0,
               validated=0, queries=0, solver_s=0.0, z3_checks=0)
    reached = {}
    samples = []
    incomplete = []
    subs_ev = []
    twin_ok = True
    realizations = {}
    params_by_name = {n: p for n, p in subs}
    for r in results:
        if r.get('twin'):
            if not (r.get('violation') and
                    r['violation']['label'] == '__twin__'):
                if r.get('violation'):
                    # a real violation surfaced inside the twin: main run has it
                    continue
                twin_ok = False
                errors.append('vacuity twin %s did not reach the end of the '
                              'harness: %s' % (r['name'], r.get('error')))
            continue
        if r.get('error'):
            errors.append('%s: %s' % (r['name'], r['error']))
        for k in ('completed', 'ignored', 'unknown', 'timeouts', 'decisions',
                  'validated', 'queries', 'z3_checks'):
            tot[k] += r.get(k, 0) or 0
        tot['solver_s'] += r.get('solver_s', 0.0) or 0.0
        for k, v in (r.get('reached') or {}).items():
            reached[k] = reached.get(k, 0) + v
        for k, v in (r.get('realizations') or {}).items():
            realizations[k] = realizations.get(k, 0) + v
        if r.get('validation_mismatch'):
            # A witness of a path that passed symbolically fails when it is
            # run on the unstubbed code.  If what fails there is one of the
            # property's own assertions, the concrete run on the real code is
            # the ground truth: it is reported as a violation found at the
            # replay stage (the engine's model diverged from the interpreter,
            # e.g. functools.lru_cache is bypassed under the tracer).  Anything
            # else is a harness error.
            promoted = False
            for bad in r['validation_mismatch']:
                out = bad.get('outcome') or []
                if out and out[0] == 'violation' and not r.get('violation'):
                    r['violation'] = {'label': out[1], 'witness': bad['witness'],
                                      'info': {'found_at': 'replay of a '
                                               'completed path on the '
                                               'unstubbed code'}}
                    promoted = True
                    break
            if not promoted:
                errors.append('%s: completed-path witness does not replay '
                              'cleanly on the unstubbed code: %s' % (
                                  r['name'],
                                  json.dumps(r['validation_mismatch'])[:1500]))
        if r.get('violation'):
            violations.append(r)
        for fid, ent in (r.get('known') or {}).items():
            known_hits.setdefault(fid, []).append((r, ent))
        if not r.get('exhausted') or r.get('unknown') or r.get('timeouts'):
            if not r.get('violation'):
                incomplete.append(r['name'])
        for s in (r.get('samples') or [])[:1]:
            if len(samples) < 6:
                samples.append({'sub': r['name'], 'inputs': s})
        subs_ev.append({'name': r['name'], 'paths': r.get('completed', 0),
                        'ignored': r.get('ignored', 0),
                        'unknown': r.get('unknown', 0),
                        'timeouts': r.get('timeouts', 0),
                        'exhausted': bool(r.get('exhausted')),
                        'wall_s': r.get('wall_s')})

    exit_code = 0
    out_lines = []
    nviol = 0
    # --- violations: replay first
    for r in violations:
        v = r['violation']
        path = write_replay(prop, modname, r['name'], r.get('params'),
                            v['label'], v['witness'],
                            {'info': v.get('info'), 'trace': v.get('trace')})
        if r.get('custom_replayed'):
            out = ['violation', v['label']]
        else:
            out, _p = replay_subprocess(path)
        if out[0] == 'violation':
            out_lines.append('VIOLATION property=%s replay=%s' % (prop, path))
            out_lines.append('  sub-harness=%s assertion=%s witness=%s' % (
                r['name'], v['label'], json.dumps(v['witness'])[:600]))
            nviol += 1
            exit_code = 1
        else:
            errors.append('%s: counterexample for %s did not reproduce on the '
                          'unstubbed code (%s); replay=%s' % (
                              r['name'], v['label'], out, path))
    # --- known findings
    for fid, hits in known_hits.items():
        r, ent = hits[0]
        path = write_replay(prop, modname, r['name'], r.get('params'),
                            ent['label'], ent['witness'], {'known_id': fid})
        out, _p = replay_subprocess(path)
        if out[0] not in ('known', 'violation'):
            errors.append('%s: known-finding witness %s did not reproduce '
                          '(%s)' % (r['name'], fid, out))
            continue
        if fid in listed:
            out_lines.append('KNOWN-FINDING: property=%s %s (%s; %d paths in '
                             '%d sub-harnesses; replay=%s)' % (
                                 prop, listed[fid]['description'], fid,
                                 sum(e['count'] for _r, e in hits), len(hits),
                                 path))
        else:
            out_lines.append('VIOLATION property=%s replay=%s' % (prop, path))
            out_lines.append('  (matches predicate %s, which is not a listed '
                             'finding)' % fid)
            nviol += 1
            exit_code = 1
    # --- reachability
    missing = [x for x in meta.get('reach_required', [])
               if not reached.get(x)]
    if tier == 'quick':
        missing = [x for x in missing
                   if x not in meta.get('reach_thorough_only', [])]
    if missing and not violations:
        errors.append('reachability witnesses never hit: %s' % missing)
    wl = getattr(mod, 'REALIZE_OK', None)
    unexpected_real = {}
    if wl is not None:
        unexpected_real = {k: v for k, v in realizations.items()
                           if not any(w in k for w in wl)}
        if unexpected_real:
            incomplete.append('unexpected realisations')
    if errors and exit_code == 0:
        exit_code = 3
    exhaustive = not incomplete and not errors
    wall = round(time.monotonic() - t0, 2)

    ev = {
        'property_id': prop, 'tier': tier, 'seed': seed,
        'level': 'model_checking',
        'coverage': {
            'states': max(tot['completed'], 0),
            'transitions': max(tot['decisions'], 0),
            'traces_validated_against_impl': tot['validated'],
            'samples': samples or [{'note': 'no completed path'}],
            'exhaustive': bool(exhaustive),
            'explanation': meta.get('explanation', ''),
            'functions_encoded': meta.get('functions_encoded', []),
            'bounds': meta.get('bounds', {}).get(tier, meta.get('bounds', {})),
            'outside_bounds': meta.get('outside_bounds', []),
            'stubs': meta.get('stubs', []),
            'paths_completed': tot['completed'],
            'paths_ignored_by_assume': tot['ignored'],
            'unknown_paths': tot['unknown'], 'timeout_paths': tot['timeouts'],
            'solver_branch_decisions': tot['decisions'],
            'smt_queries': tot['queries'] + (tot['z3_checks'] or
                                             tot['decisions']),
            'solver_s': round(tot['solver_s'], 2),
            'reachability': reached,
            'realizations_unexpected': unexpected_real,
            'sub_harnesses': subs_ev,
            'incomplete_sub_harnesses': incomplete,
            'known_findings_hit': sorted(known_hits),
            'vacuity_twin_ok': twin_ok,
            'harness_errors': [e[:800] for e in errors],
        },
        'assumptions': meta.get('assumes', []),
        'wall_s': wall,
        'violations': nviol,
    }
    if ev['coverage']['states'] < 1:
        ev['coverage']['states'] = 1 if tot['queries'] else 0
    if ev['coverage']['transitions'] < 1:
        ev['coverage']['transitions'] = max(1, tot['queries'])
    if write:
        os.makedirs(os.path.join(VERIF, 'evidence'), exist_ok=True)
        json.dump(ev, open(os.path.join(VERIF, 'evidence', prop + '.json'),
                           'w'), indent=1, sort_keys=True)
    for l in out_lines:
        print(l)
    for e in errors:
        print('HARNESS-ERROR property=%s %s' % (prop, e[:3000]))
    if exit_code == 0:
        if incomplete:
            print('INCOMPLETE property=%s tier=%s not exhausted: %s' % (
                prop, tier, incomplete[:8]))
        else:
            print('HOLDS-WITHIN-BOUND property=%s tier=%s paths=%d '
                  'decisions=%d subs=%d wall=%.1fs' % (
                      prop, tier, tot['completed'], tot['decisions'],
                      len(subs_ev), wall))
    return exit_code


if __name__ == '__main__':
    sys.exit(main())
