"""SMTQ - SMT queries generated from the module source at run time.

* ``regex_to_z3``: Python ``re`` pattern -> z3 regular expression (via
  ``re._parser``), with the named groups and top-level literal separators
  returned separately so that per-field lemmas can be stated.
* ``Lemmas``: one z3 solver, push/pop per query, timing, any ``unknown`` is
  inconclusive.
"""

import re
import time

import z3

try:
    import re._parser as sre_parse          # python >= 3.11
    import re._constants as sre_c
except ImportError:                          # pragma: no cover
    import sre_parse
    import sre_constants as sre_c

WORD = z3.Union(z3.Range('a', 'z'), z3.Range('A', 'Z'), z3.Range('0', '9'),
                z3.Re('_'))
DIGIT = z3.Range('0', '9')
ANYCHAR = z3.Range(chr(1), chr(126))


def _lit(c):
    return z3.Re(z3.StringVal(chr(c)))


def _in(items):
    alts = []
    negate = False
    for op, av in items:
        if op == sre_c.NEGATE:
            negate = True
        elif op == sre_c.LITERAL:
            alts.append(_lit(av))
        elif op == sre_c.RANGE:
            alts.append(z3.Range(chr(av[0]), chr(av[1])))
        elif op == sre_c.CATEGORY:
            alts.append(_category(av))
        else:
            raise NotImplementedError('IN item %r' % (op,))
    r = alts[0] if len(alts) == 1 else z3.Union(*alts)
    if negate:
        r = z3.Intersect(ANYCHAR, z3.Complement(r))
    return r


def _category(av):
    if av == sre_c.CATEGORY_DIGIT:
        return DIGIT
    if av == sre_c.CATEGORY_WORD:
        return WORD          # ASCII model of \w (stated assumption)
    raise NotImplementedError('category %r' % (av,))


def _seq(items):
    parts = [_node(op, av) for op, av in items
             if op != sre_c.AT]
    if not parts:
        return z3.Re(z3.StringVal(''))
    if len(parts) == 1:
        return parts[0]
    return z3.Concat(*parts)


def _node(op, av):
    if op == sre_c.LITERAL:
        return _lit(av)
    if op == sre_c.IN:
        return _in(av)
    if op == sre_c.CATEGORY:
        return _category(av)
    if op == sre_c.ANY:
        return ANYCHAR
    if op in (sre_c.MAX_REPEAT, sre_c.MIN_REPEAT):
        lo, hi, sub = av
        inner = _seq(list(sub))
        if hi == sre_c.MAXREPEAT:
            if lo == 0:
                return z3.Star(inner)
            return z3.Concat(z3.Loop(inner, lo, lo), z3.Star(inner)) \
                if lo > 1 else z3.Plus(inner)
        return z3.Loop(inner, lo, hi)
    if op == sre_c.SUBPATTERN:
        return _seq(list(av[3]))
    if op == sre_c.BRANCH:
        return z3.Union(*[_seq(list(b)) for b in av[1]]) \
            if len(av[1]) > 1 else _seq(list(av[1][0]))
    raise NotImplementedError('regex node %r' % (op,))


def regex_to_z3(pattern):
    """-> (z3 regex of the whole pattern, [('group'|'lit', name|text, regex)])
    where the list is the top-level sequence: named groups and the literal
    text between them."""
    parsed = sre_parse.parse(pattern)
    names = {v: k for k, v in parsed.state.groupdict.items()}
    top = []
    lit = ''
    for op, av in parsed:
        if op == sre_c.AT:
            continue
        if op == sre_c.LITERAL:
            lit += chr(av)
            continue
        if lit:
            top.append(('lit', lit, z3.Re(z3.StringVal(lit))))
            lit = ''
        if op == sre_c.SUBPATTERN and av[0] in names:
            top.append(('group', names[av[0]], _seq(list(av[3]))))
        else:
            top.append(('other', None, _node(op, av)))
    if lit:
        top.append(('lit', lit, z3.Re(z3.StringVal(lit))))
    whole = z3.Concat(*[t[2] for t in top]) if len(top) > 1 else top[0][2]
    return whole, top


class Lemmas:
    def __init__(self, timeout_ms=60000):
        self.s = z3.Solver()
        self.s.set('timeout', timeout_ms)
        self.results = []       # (name, verdict, seconds, witness)
        self.solver_s = 0.0

    def unsat(self, name, *constraints, witness_of=None):
        """The lemma holds iff the constraints are unsatisfiable."""
        self.s.push()
        for c in constraints:
            self.s.add(c)
        t0 = time.monotonic()
        r = self.s.check()
        dt = time.monotonic() - t0
        self.solver_s += dt
        wit = None
        if r == z3.sat and witness_of is not None:
            m = self.s.model()
            wit = {}
            for k, v in witness_of.items():
                val = m.eval(v, model_completion=True)
                if z3.is_string_value(val):
                    wit[k] = val.as_string()
                elif z3.is_int_value(val):
                    wit[k] = val.as_long()
                else:
                    wit[k] = str(val)
        self.s.pop()
        self.results.append((name, str(r), round(dt, 3), wit))
        return str(r), wit

    def models(self, var, constraints, n):
        """Up to n distinct string models of var under the constraints."""
        out = []
        self.s.push()
        for c in constraints:
            self.s.add(c)
        for _ in range(n):
            t0 = time.monotonic()
            r = self.s.check()
            self.solver_s += time.monotonic() - t0
            if r != z3.sat:
                break
            v = self.s.model().eval(var, model_completion=True)
            out.append(v.as_string())
            self.s.add(var != v)
        self.s.pop()
        return out


# canonical renderings ------------------------------------------------------

def octet():
    d = DIGIT
    nz = z3.Range('1', '9')
    return z3.Union(
        d,                                             # 0-9
        z3.Concat(nz, d),                              # 10-99
        z3.Concat(z3.Re('1'), d, d),                   # 100-199
        z3.Concat(z3.Re('2'), z3.Range('0', '4'), d),  # 200-249
        z3.Concat(z3.Re('25'), z3.Range('0', '5')))    # 250-255


def dotted_quad():
    o = octet()
    dot = z3.Re('.')
    return z3.Concat(o, dot, o, dot, o, dot, o)


def port_1_65535():
    d = DIGIT
    nz = z3.Range('1', '9')
    return z3.Union(
        z3.Concat(nz, z3.Loop(d, 0, 3)),
        z3.Concat(z3.Range('1', '5'), z3.Loop(d, 4, 4)),
        z3.Concat(z3.Re('6'), z3.Range('0', '4'), z3.Loop(d, 3, 3)),
        z3.Concat(z3.Re('65'), z3.Range('0', '4'), z3.Loop(d, 2, 2)),
        z3.Concat(z3.Re('655'), z3.Range('0', '2'), d),
        z3.Concat(z3.Re('6553'), z3.Range('0', '5')))
