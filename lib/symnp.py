"""symnp - the part of numpy that treadmill.scheduler uses, over symbolic ints.

Installed as ``treadmill.scheduler.np`` by the symbolic harnesses only; concrete
replays use the real numpy.

Model (exact w.r.t. IEEE-754 doubles under the stated value bound):

* vector elements are integers (python or SymbolicInt), ``+ -`` exact;
* ``x + k*eps`` (k >= 1 concrete) is kept as ``PE(x, k)``;
* ``n / PE(x, k)`` is the exact fraction n/x when x >= 2 (k = 1) or x >= 4k
  (k*eps is absorbed by rounding), and n*2^52/k when x == 0; the values in
  between (x = 1 for k = 1) are excluded by a ``require`` (recorded
  assumption);
* fractions are compared by cross-multiplication.  With all quantities
  < 2^15 two distinct fractions differ by > 2^-30 relative 2^-45, so rounding
  to double (monotone) preserves strict order and equality;
* ``max`` / ``maximum`` are If-terms (no fork).
"""

import fractions

import z3

from crosshair.tracers import NoTracing

import symx
from symx import _is_sym, _zbool, _zint, sym_bool, sym_int

_K = 2 ** 52

# set by the harness for the current path
CURRENT = [None]


def _require(term):
    S = CURRENT[0]
    if S is None:
        raise symx.HarnessError('symnp used outside a harness path')
    S.require(term)


class _Eps:
    def __repr__(self):
        return 'eps'


EPS = _Eps()


class _FInfo:
    eps = EPS


def finfo(_t):
    return _FInfo


class _Inf:
    """+infinity that never turns anything into a z3 Real."""
    def __lt__(self, o):
        return False

    def __le__(self, o):
        return o is self or o == float('inf') if not _is_sym(o) else False

    def __gt__(self, o):
        return not (o is self)

    def __ge__(self, o):
        return True

    def __eq__(self, o):
        return o is self

    def __ne__(self, o):
        return o is not self

    def __hash__(self):
        return 1

    def __repr__(self):
        return 'inf'

    def __float__(self):
        return float('inf')


inf = _Inf()


class PE:
    """x + k*eps."""
    __slots__ = ('x', 'k')

    def __init__(self, x, k):
        self.x = x
        self.k = k

    def __add__(self, o):
        if o is EPS:
            return PE(self.x, self.k + 1)
        if isinstance(o, PE):
            return PE(self.x + o.x, self.k + o.k)
        return PE(self.x + o, self.k)

    __radd__ = __add__

    def __repr__(self):
        return 'PE(%r,%r)' % (self.x, self.k)


class Frac:
    """n / d with d > 0 (z3 Int terms or python ints)."""
    __slots__ = ('n', 'd')

    def __init__(self, n, d):
        self.n = n
        self.d = d

    @staticmethod
    def of(o):
        if isinstance(o, Frac):
            return o
        with NoTracing():
            if isinstance(o, _Inf):
                return None
            if _is_sym(o) or isinstance(o, int):
                return Frac(o, 1)
            if isinstance(o, float):
                if o == float('inf'):
                    return None
                if o == float('-inf'):
                    raise symx.HarnessError('-inf in Frac comparison')
                fr = fractions.Fraction(o)
                return Frac(fr.numerator, fr.denominator)
        raise symx.HarnessError('cannot compare Frac with %r' % (o,))

    def _cmp(self, o, op):
        with NoTracing():
            a, b = _zint(self.n), _zint(self.d)
            c, d = _zint(o.n), _zint(o.d)
            if z3.eq(b, d):
                return sym_bool(op(a, c))
            return sym_bool(op(a * d, c * b))

    def __lt__(self, o):
        o = Frac.of(o)
        if o is None:
            return True
        return self._cmp(o, lambda x, y: x < y)

    def __le__(self, o):
        o = Frac.of(o)
        if o is None:
            return True
        return self._cmp(o, lambda x, y: x <= y)

    def __gt__(self, o):
        o = Frac.of(o)
        if o is None:
            return False
        return self._cmp(o, lambda x, y: x > y)

    def __ge__(self, o):
        o = Frac.of(o)
        if o is None:
            return False
        return self._cmp(o, lambda x, y: x >= y)

    def __eq__(self, o):
        o = Frac.of(o)
        if o is None:
            return False
        return self._cmp(o, lambda x, y: x == y)

    def __ne__(self, o):
        o = Frac.of(o)
        if o is None:
            return True
        return self._cmp(o, lambda x, y: x != y)

    __hash__ = None

    def __repr__(self):
        return 'Frac(%r/%r)' % (self.n, self.d)


def _absorb_from(k):
    """Smallest integer x >= 1 from which x + k*eps == x in IEEE doubles for
    every larger integer: x >= 4k puts k*eps strictly below half an ulp; for
    k == 1 the ties at x = 2, 3 round to even, i.e. to x."""
    return 2 if k == 1 else 4 * k


def _div(n, den):
    if not isinstance(den, PE):
        raise symx.HarnessError('symnp: division by a value without eps')
    if isinstance(n, (PE, Frac)):
        raise symx.HarnessError('symnp: unsupported numerator')
    with NoTracing():
        x = _zint(den.x)
        nn = _zint(n)
        if z3.is_int_value(x):
            xv = x.as_long()
            if xv == 0:
                return Frac(sym_int(z3.simplify(nn * _K)), den.k)
            if xv < _absorb_from(den.k):
                raise symx.Ignore()
            return Frac(n, xv)
    _require(z3.Or(x == 0, x >= _absorb_from(den.k)))
    with NoTracing():
        num = z3.If(x == 0, nn * _K, nn)
        d = z3.If(x == 0, z3.IntVal(den.k), x)
        return Frac(sym_int(num), sym_int(d))


class Vec:
    __slots__ = ('v',)

    def __init__(self, v):
        self.v = list(v)

    def copy(self):
        return Vec(self.v)

    def tolist(self):
        return list(self.v)

    def __iter__(self):
        return iter(self.v)

    def __len__(self):
        return len(self.v)

    def __getitem__(self, i):
        return self.v[i]

    def __setitem__(self, i, val):
        if isinstance(i, slice):
            vals = self._other(val)
            idx = range(*i.indices(len(self.v)))
            for k, x in zip(idx, [vals[j] for j in idx]):
                self.v[k] = x
        else:
            self.v[i] = val

    def _other(self, o):
        if isinstance(o, Vec):
            if len(o.v) != len(self.v):
                raise ValueError('shape mismatch')
            return o.v
        if isinstance(o, (list, tuple)):
            return list(o)
        return [o] * len(self.v)

    def __add__(self, o):
        return Vec([_add(a, b) for a, b in zip(self.v, self._other(o))])

    __radd__ = __add__

    def __sub__(self, o):
        return Vec([a - b for a, b in zip(self.v, self._other(o))])

    def __iadd__(self, o):
        self.v[:] = [_add(a, b) for a, b in zip(self.v, self._other(o))]
        return self

    def __isub__(self, o):
        self.v[:] = [a - b for a, b in zip(self.v, self._other(o))]
        return self

    def __truediv__(self, o):
        return Vec([_div(a, b) for a, b in zip(self.v, self._other(o))])

    def __repr__(self):
        return 'Vec(%r)' % (self.v,)


ndarray = Vec


def _add(a, b):
    if b is EPS:
        if isinstance(a, PE):
            return a + EPS
        return PE(a, 1)
    if a is EPS:
        return _add(b, a)
    if isinstance(a, PE):
        return a + b
    if isinstance(b, PE):
        return b + a
    return a + b


def zeros(n):
    return Vec([0] * n)


def array(x, dtype=None):
    if isinstance(x, Vec):
        return Vec(x.v)
    out = []
    for e in x:
        if e is EPS:
            out.append(PE(0, 1))
        else:
            out.append(e)
    return Vec(out)


def subtract(a, b):
    return a - b


def _max2(a, b):
    if isinstance(a, Frac) or isinstance(b, Frac):
        a = Frac.of(a)
        b = Frac.of(b)
        with NoTracing():
            an, ad, bn, bd = _zint(a.n), _zint(a.d), _zint(b.n), _zint(b.d)
            if z3.eq(ad, bd):
                c = an >= bn
                return Frac(sym_int(z3.If(c, an, bn)), a.d)
            c = an * bd >= bn * ad
            return Frac(sym_int(z3.If(c, an, bn)), sym_int(z3.If(c, ad, bd)))
    with NoTracing():
        if not _is_sym(a) and not _is_sym(b):
            return a if a >= b else b
        za, zb = _zint(a), _zint(b)
        return sym_int(z3.If(za >= zb, za, zb))


def maximum(a, b):
    bv = a._other(b) if isinstance(a, Vec) else b._other(a)
    av = a.v if isinstance(a, Vec) else bv
    if not isinstance(a, Vec):
        av, bv = bv, b.v
    return Vec([_max2(x, y) for x, y in zip(av, bv)])


def _min2(a, b):
    if isinstance(a, Frac) or isinstance(b, Frac):
        raise TypeError('symnp.minimum on fractions is not modelled')
    with NoTracing():
        if not _is_sym(a) and not _is_sym(b):
            return a if a <= b else b
        za, zb = _zint(a), _zint(b)
        return sym_int(z3.If(za <= zb, za, zb))


def minimum(a, b):
    bv = a._other(b) if isinstance(a, Vec) else b._other(a)
    av = a.v if isinstance(a, Vec) else bv
    if not isinstance(a, Vec):
        av, bv = bv, b.v
    return Vec([_min2(x, y) for x, y in zip(av, bv)])


def max(a):  # noqa: A001
    it = list(a)
    out = it[0]
    for e in it[1:]:
        out = _max2(out, e)
    return out


def sum(vs, axis=None):  # noqa: A001
    vs = list(vs)
    if axis != 0:
        raise symx.HarnessError('symnp.sum: only axis=0 of a list of vectors')
    out = vs[0]
    if not isinstance(out, Vec):
        out = Vec(out)
    for v in vs[1:]:
        out = out + v
    return out


def isclose(a, b):
    """numpy.isclose with default rtol=1e-5, atol=1e-8 on integers:
    |a-b| <= 1e-8 + 1e-5*|b|  <=>  10^8*|a-b| <= 1 + 10^3*|b| (the two sides
    differ by at least 1 for integers, so double rounding cannot flip it)."""
    with NoTracing():
        if not _is_sym(a) and not _is_sym(b):
            return 10 ** 8 * abs(a - b) <= 1 + 10 ** 3 * abs(b)
        za, zb = _zint(a), _zint(b)
        d = za - zb
        absd = z3.If(d >= 0, d, -d)
        absb = z3.If(zb >= 0, zb, -zb)
        return sym_bool(10 ** 8 * absd <= 1 + 10 ** 3 * absb)


# ---- fork-free replacements for scheduler._any/_all ------------------------

def merged_any(oper, left, right):
    return symx.any_of([oper(ai, bi) for ai, bi in zip(left, right)])


def merged_all(oper, left, right):
    return symx.all_of([oper(ai, bi) for ai, bi in zip(left, right)])
