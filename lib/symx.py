"""SYMX: bounded symbolic execution of real Python code with CrossHair's tracer
and z3, driven as a library.

A harness is a function ``fn(S)``.  ``S`` hands out named symbolic inputs
(``S.int``, ``S.bool``, ``S.choice``, ``S.str``), takes assumptions
(``S.assume`` forks, ``S.require`` adds to the path condition without a fork)
and assertions (``S.check``).  The same harness is run

* symbolically by :func:`explore` - the decision tree over all branch outcomes
  is walked until it is *exhausted*; every completed / ignored / unknown /
  timed-out path is counted separately;
* concretely by :func:`replay` - ``S`` returns the values of a witness and the
  code under test runs without tracer and without stubs.

"Holds within the bound" may only be said by callers when
``result['exhausted'] and not result['unknown'] and not result['timeouts']``.
"""

import collections
import os
import sys
import time
import traceback

import z3

import crosshair.core_and_libs  # noqa: F401  (registers patches)
from crosshair.condition_parser import condition_parser
from crosshair.core import Patched, deep_realize, proxy_for_type
import crosshair.core as _chcore

# CrossHair replaces the ``dict(...)`` constructor by a ShellMutableMap over a
# SimpleDict.  Measured (0.0.110): that map does not keep Python's insertion
# order when a key is deleted and inserted again (the key returns to its old
# position), so code under test that relies on dict order - Allocation.apps and
# the stable sort over it - ran with a different order than the real
# interpreter.  The harnesses never put symbolic keys into dictionaries (hashed
# attributes are choices), so the real constructor is used instead.
_chcore._PATCH_REGISTRATIONS.pop(dict, None)

# solver accounting: every z3 Solver.check made in this process (CrossHair's
# branch decisions, our one-query oracles, witness extraction) is counted and
# timed
_Z3 = {'checks': 0, 'seconds': 0.0}
if not getattr(z3.Solver.check, '_verif_timed', False):
    _orig_check = z3.Solver.check

    def _timed_check(self, *a, **kw):
        t0 = time.perf_counter()
        try:
            return _orig_check(self, *a, **kw)
        finally:
            _Z3['checks'] += 1
            _Z3['seconds'] += time.perf_counter() - t0
    _timed_check._verif_timed = True
    z3.Solver.check = _timed_check
from crosshair.libimpl.builtinslib import SymbolicBool, SymbolicInt
from crosshair.options import AnalysisKind
from crosshair.statespace import (
    CallAnalysis,
    RootNode,
    StateSpace,
    StateSpaceContext,
    VerificationStatus,
    context_statespace,
)
from crosshair.tracers import COMPOSITE_TRACER, NoTracing, ResumedTracing
from crosshair.util import (
    CrossHairInternal,
    IgnoreAttempt,
    NotDeterministic,
    PathTimeout,
    UnexploredPath,
    UnknownSatisfiability,
)


class Ignore(BaseException):
    """Path does not satisfy the harness's assumptions."""


class Violation(BaseException):
    """The property's assertion failed on this path."""

    def __init__(self, label, witness, info=None):
        BaseException.__init__(self, label)
        self.label = label
        self.witness = witness
        self.info = info


class Known(BaseException):
    """Violation explained by a listed known finding (path is not a new alarm)."""

    def __init__(self, finding_id, label, witness):
        BaseException.__init__(self, finding_id)
        self.finding_id = finding_id
        self.label = label
        self.witness = witness


class HarnessError(Exception):
    pass


# --------------------------------------------------------------------------
# helpers usable from stubs (work on python ints, SymbolicInt/Bool, z3 terms)

def is_sym(x):
    with NoTracing():
        return _is_sym(x)


def _is_sym(x):
    return isinstance(x, (SymbolicInt, SymbolicBool))


def zint(x):
    """z3 Int term for a python int / integral float / SymbolicInt / z3 term."""
    with NoTracing():
        return _zint(x)


def _zint(x):
    if isinstance(x, SymbolicInt):
        return x.var
    if isinstance(x, z3.ExprRef):
        return x
    if isinstance(x, bool):
        return z3.IntVal(int(x))
    if isinstance(x, int):
        return z3.IntVal(x)
    if isinstance(x, SymbolicBool):
        return z3.If(x.var, z3.IntVal(1), z3.IntVal(0))
    # numpy scalars / floats holding integers (concrete replay)
    f = float(x)
    if f != f or f in (float('inf'), float('-inf')):
        raise HarnessError('non-finite value in integer position: %r' % (x,))
    if f != int(f):
        raise HarnessError('non-integral value in integer position: %r' % (x,))
    return z3.IntVal(int(f))


def zbool(x):
    with NoTracing():
        return _zbool(x)


def _zbool(x):
    if isinstance(x, SymbolicBool):
        return x.var
    if isinstance(x, z3.ExprRef):
        return x
    if isinstance(x, SymbolicInt):
        return x.var != 0
    return z3.BoolVal(bool(x))


def sym_int(term):
    """Wrap a z3 Int term; constants stay python ints."""
    if z3.is_int_value(term):
        return term.as_long()
    return SymbolicInt(term)


def sym_bool(term):
    term = z3.simplify(term) if not z3.is_const(term) else term
    if z3.is_true(term):
        return True
    if z3.is_false(term):
        return False
    return SymbolicBool(term)


def ite(c, a, b):
    """Fork-free if-then-else on ints."""
    with NoTracing():
        if not is_sym(c) and not isinstance(c, z3.ExprRef):
            return a if c else b
        return sym_int(z3.If(zbool(c), zint(a), zint(b)))


def any_of(conds):
    with NoTracing():
        conds = list(conds)
        if not any(is_sym(c) for c in conds):
            return any(conds)
        return sym_bool(z3.Or(*[zbool(c) for c in conds]))


def all_of(conds):
    with NoTracing():
        conds = list(conds)
        if not any(is_sym(c) for c in conds):
            return all(conds)
        return sym_bool(z3.And(*[zbool(c) for c in conds]))


# --------------------------------------------------------------------------

class _Base:
    concrete = False

    def __init__(self):
        self.reached = set()
        self.trace = []          # harness-level event log for this path
        self.notes = {}

    def reach(self, label):
        self.reached.add(label)

    def log(self, *ev):
        self.trace.append(ev)

    # expression helpers - z3 in both modes (constants in concrete mode)
    z = staticmethod(zint)
    zb = staticmethod(zbool)


class Sym(_Base):
    """Symbolic-mode harness context (one per path)."""

    def __init__(self, space, known=None):
        _Base.__init__(self)
        self.space = space
        self.named = collections.OrderedDict()
        self.known = known or []     # [(finding_id, predicate(S, label))]

    # ---- inputs
    def int(self, name, lo=None, hi=None):
        with NoTracing():
            v = SymbolicInt(name + self.space.uniq())
            if lo is not None:
                self.space.add(v.var >= lo)
            if hi is not None:
                self.space.add(v.var <= hi)
            self.named[name] = v
            return v

    def bool(self, name):
        with NoTracing():
            v = SymbolicBool(name + self.space.uniq())
            self.named[name] = v
            return v

    def str(self, name, maxlen=None):
        with NoTracing():
            v = proxy_for_type(str, name + self.space.uniq(), allow_subtypes=False)
            self.named[name] = v
        if maxlen is not None:
            self.assume(len(v) <= maxlen)
        return v

    def choice(self, name, n):
        """A concrete int in range(n), chosen by forking."""
        v = self.int(name, 0, n - 1)
        for i in range(n - 1):
            if v == i:
                with NoTracing():
                    self.named[name] = i
                return i
        with NoTracing():
            self.named[name] = n - 1
        return n - 1

    def flag(self, name):
        """A concrete bool, chosen by forking."""
        return bool(self.choice(name, 2))

    def const(self, name, value):
        self.named[name] = value
        return value

    # ---- assumptions
    def assume(self, cond):
        if not cond:
            raise Ignore()

    def require(self, term):
        """Add a z3 Bool term to the path condition without forking."""
        with NoTracing():
            term = zbool(term)
            if z3.is_true(term):
                return
            if not self.space.is_possible(term):
                raise Ignore()
            self.space.solver.add(term)

    # ---- assertions
    def _witness(self):
        with NoTracing():
            prev = _COUNT_REAL[0]
            _COUNT_REAL[0] = False
            try:
                out = collections.OrderedDict()
                for k, v in self.named.items():
                    out[k] = deep_realize(v)
                return out
            finally:
                _COUNT_REAL[0] = prev

    def _witness_quiet(self):
        """Witness of the current path read from a z3 model WITHOUT going
        through the state space: ``deep_realize`` adds value-choice nodes to
        the decision tree (measured: a sub-harness of 91 paths did not exhaust
        in 1976 paths when every path was realised), so it is only used when a
        path ends in a violation.  Returns None if no model is available."""
        with NoTracing():
            solver = self.space.solver
            try:
                if solver.check() != z3.sat:
                    return None
                model = solver.model()
            except z3.Z3Exception:
                return None
            out = collections.OrderedDict()
            for k, v in self.named.items():
                if isinstance(v, SymbolicInt):
                    out[k] = model.eval(v.var, model_completion=True).as_long()
                elif isinstance(v, SymbolicBool):
                    out[k] = z3.is_true(model.eval(v.var,
                                                   model_completion=True))
                elif isinstance(v, (bool, int, str)) or v is None:
                    out[k] = v
                else:
                    return None      # symbolic str etc.: not supported here
            return out

    def _fail(self, label, info=None):
        w = self._witness()
        for fid, pred in self.known:
            if pred(self, label):
                raise Known(fid, label, w)
        raise Violation(label, w, info)

    def check(self, label, cond, info=None):
        """cond: z3 Bool term (one solver query, no fork), symbolic or bool."""
        with NoTracing():
            if isinstance(cond, (SymbolicBool, z3.ExprRef)):
                term = zbool(cond)
                neg = z3.Not(term)
                if self.space.is_possible(neg):
                    self.space.solver.add(neg)
                    bad = True
                else:
                    bad = False
            else:
                bad = not cond
        if bad:
            self._fail(label, info)

    def fail(self, label, info=None):
        self._fail(label, info)

    def possible(self, term):
        with NoTracing():
            return self.space.is_possible(zbool(term))


class Concrete(_Base):
    """Replay-mode harness context: inputs come from a witness."""
    concrete = True

    def __init__(self, witness, known=None):
        _Base.__init__(self)
        self.w = witness
        self.named = collections.OrderedDict()
        self.known = known or []

    def _get(self, name):
        if name not in self.w:
            raise HarnessError('witness lacks input %r' % name)
        v = self.w[name]
        self.named[name] = v
        return v

    def int(self, name, lo=None, hi=None):
        v = self._get(name)
        if (lo is not None and v < lo) or (hi is not None and v > hi):
            raise Ignore()
        return v

    def bool(self, name):
        return bool(self._get(name))

    def str(self, name, maxlen=None):
        v = self._get(name)
        if maxlen is not None and len(v) > maxlen:
            raise Ignore()
        return v

    def choice(self, name, n):
        return self.int(name, 0, n - 1)

    def flag(self, name):
        return bool(self._get(name))

    def const(self, name, value):
        self.named[name] = value
        return value

    def assume(self, cond):
        if not cond:
            raise Ignore()

    def require(self, term):
        t = z3.simplify(zbool(term))
        if z3.is_false(t):
            raise Ignore()
        if not z3.is_true(t):
            raise HarnessError('non-constant requirement in replay: %s' % t)

    def check(self, label, cond, info=None):
        if isinstance(cond, z3.ExprRef):
            t = z3.simplify(cond)
            if z3.is_true(t):
                return
            if not z3.is_false(t):
                raise HarnessError('non-constant assertion in replay: %s' % t)
            bad = True
        else:
            bad = not cond
        if bad:
            self.fail(label, info)

    def fail(self, label, info=None):
        for fid, pred in self.known:
            if pred(self, label):
                raise Known(fid, label, dict(self.w))
        raise Violation(label, dict(self.w), info)

    def possible(self, term):
        return z3.is_true(z3.simplify(zbool(term)))


# --------------------------------------------------------------------------

_DECISIONS = [0]
_REALIZED = collections.Counter()
_COUNT_REAL = [True]
_orig_choose = StateSpace.choose_possible
_orig_fmv = StateSpace.find_model_value
_COUNT_REAL = [True]


def _counting_choose(self, expr, probability_true=None):
    _DECISIONS[0] += 1
    return _orig_choose(self, expr, probability_true)


def _counting_fmv(self, expr, *a, **kw):
    if _COUNT_REAL[0]:
        f = sys._getframe(1)
        where = '?'
        for _ in range(40):
            if f is None:
                break
            fn = f.f_code.co_filename
            if 'crosshair' not in fn and 'symx.py' not in fn:
                where = '%s:%d' % (fn, f.f_lineno)
                break
            f = f.f_back
        _REALIZED[where] += 1
    return _orig_fmv(self, expr, *a, **kw)


StateSpace.choose_possible = _counting_choose
StateSpace.find_model_value = _counting_fmv


def explore(fn, budget_s=600.0, per_path_timeout=60.0, known=None,
            max_paths=None, stop_on_violation=True, keep_samples=3,
            on_complete=None):
    """Walk the decision tree of fn(S).  Returns a result dict."""
    from time import process_time
    root = RootNode()
    res = {
        'completed': 0, 'ignored': 0, 'unknown': 0, 'timeouts': 0,
        'exhausted': False, 'violation': None, 'known': {}, 'error': None,
        'reached': collections.Counter(), 'samples': [], 'iterations': 0,
        'budget_exhausted': False,
    }
    d0 = _DECISIONS[0]
    _REALIZED.clear()
    t0 = time.monotonic()
    z0 = (_Z3['checks'], _Z3['seconds'])
    while True:
        if time.monotonic() - t0 > budget_s or \
                (max_paths and res['iterations'] >= max_paths):
            res['budget_exhausted'] = True
            break
        res['iterations'] += 1
        itr_start = process_time()
        space = StateSpace(
            execution_deadline=itr_start + per_path_timeout,
            model_check_timeout=per_path_timeout / 2,
            search_root=root,
        )
        S = Sym(space, known)
        status = None
        stop = False
        with condition_parser([AnalysisKind.PEP316]), Patched(), \
                COMPOSITE_TRACER, NoTracing(), StateSpaceContext(space):
            try:
                try:
                    with ResumedTracing():
                        fn(S)
                    status = VerificationStatus.CONFIRMED
                    res['completed'] += 1
                    for r in S.reached:
                        res['reached'][r] += 1
                    if len(res['samples']) < keep_samples:
                        wq = S._witness_quiet()
                        if wq is not None:
                            res['samples'].append(_jsonable(wq))
                        elif len(res['samples']) < 3:
                            _COUNT_REAL[0] = False
                            try:
                                res['samples'].append(
                                    _jsonable(S._witness()))
                            finally:
                                _COUNT_REAL[0] = True
                    if on_complete is not None:
                        on_complete(S)
                except Known as k:
                    status = VerificationStatus.CONFIRMED
                    res['completed'] += 1
                    for r in S.reached:
                        res['reached'][r] += 1
                    ent = res['known'].setdefault(
                        k.finding_id, {'count': 0, 'label': k.label,
                                       'witness': _jsonable(k.witness)})
                    ent['count'] += 1
                except (Ignore, IgnoreAttempt):
                    res['ignored'] += 1
                    status = None
                except Violation as v:
                    res['violation'] = {
                        'label': v.label, 'witness': _jsonable(v.witness),
                        'info': _jsonable(v.info),
                        'trace': _jsonable(S.trace)}
                    status = VerificationStatus.REFUTED
                    stop = stop_on_violation
                except PathTimeout:
                    res['timeouts'] += 1
                    status = VerificationStatus.UNKNOWN
                except UnexploredPath:
                    res['unknown'] += 1
                    status = VerificationStatus.UNKNOWN
                except NotDeterministic:
                    res['error'] = 'NotDeterministic: ' + traceback.format_exc()
                    break
                except CrossHairInternal:
                    res['error'] = 'CrossHairInternal: ' + traceback.format_exc()
                    break
                except Exception as e:  # unexpected exception out of the harness
                    _COUNT_REAL[0] = False
                    try:
                        w = _jsonable(S._witness())
                    except BaseException:
                        w = None
                    finally:
                        _COUNT_REAL[0] = True
                    res['error'] = 'exception in harness: %r\n%s' % (
                        e, traceback.format_exc())
                    res['error_witness'] = w
                    break
                _a, exhausted = space.bubble_status(CallAnalysis(status))
            except NotDeterministic:
                res['error'] = 'NotDeterministic: ' + traceback.format_exc()
                break
        if stop:
            break
        if exhausted:
            res['exhausted'] = True
            break
    res['decisions'] = _DECISIONS[0] - d0
    res['z3_checks'] = _Z3['checks'] - z0[0]
    res['solver_s'] = round(_Z3['seconds'] - z0[1], 3)
    res['wall_s'] = round(time.monotonic() - t0, 2)
    res['reached'] = dict(res['reached'])
    res['realizations'] = dict(_REALIZED)
    return res


def replay(fn, witness, known=None):
    """Run the harness concretely on a witness.
    Returns ('violation', label) | ('known', id) | ('ok', None) | ('ignored', None)."""
    S = Concrete(witness, known)
    try:
        fn(S)
    except Violation as v:
        return 'violation', v.label
    except Known as k:
        return 'known', k.finding_id
    except Ignore:
        return 'ignored', None
    return 'ok', None


def _jsonable(x):
    if x is None or isinstance(x, (bool, int, str)):
        return x
    if isinstance(x, float):
        return x if x == x and abs(x) != float('inf') else repr(x)
    if isinstance(x, bytes):
        return x.decode('latin-1')
    if isinstance(x, dict):
        return {str(k): _jsonable(v) for k, v in x.items()}
    if isinstance(x, (list, tuple, set, frozenset)):
        return [_jsonable(v) for v in x]
    return repr(x)


# ---------------------------------------------------------------------------
_MODULE_SNAPSHOTS = {}


def pristine_globals(mod):
    """Put the mutable module-level containers of ``mod`` (dict / list / set
    globals: memo tables, caches) back to what they were when this function
    first saw the module, and drop container globals that appeared since.
    Called at the start of a path so that state written by an earlier path -
    possibly holding symbolic values of that path - cannot leak into this one.
    Much cheaper than importlib.reload (no re-execution of the module)."""
    import copy
    with NoTracing():
        key = mod.__name__
        snap = _MODULE_SNAPSHOTS.get(key)
        if snap is None or snap[0] is not mod:
            cont = {}
            for k, v in vars(mod).items():
                if type(v) in (dict, list, set) and not k.startswith('__'):
                    try:
                        cont[k] = copy.deepcopy(v)
                    except Exception:       # noqa
                        pass
            _MODULE_SNAPSHOTS[key] = (mod, cont)
            return
        _m, cont = snap
        for k, v in list(vars(mod).items()):
            if type(v) in (dict, list, set) and not k.startswith('__'):
                if k in cont:
                    try:
                        fresh = copy.deepcopy(cont[k])
                    except Exception:   # noqa
                        continue
                    if type(v) is list:
                        v[:] = fresh
                    else:
                        v.clear()
                        v.update(fresh)
                else:
                    v.clear()
